"""C13 — the linear solver returns the true solution together with its derivatives.
Proof: Props/C13.v (solver correct over any commutative ring with a partial inverse, any pivot
choice; instances R, first- and second-order dual numbers; non-singular => pivots are units over R).
Correspondence: Model/Linalg.v (Run/RunLinalg.v, T := float) vs rust/dual/linalg/*.rs through
`rlharness linalg` on seeded systems; plus, on the real code only, the residual oracle
(M x - v through the real dmul21_/fdmul21_) and row-permutation invariance."""
from common import *  # noqa
import math

ALPHABET = ["x", "y", "z", "u", "v0", "v1"]
KINDS = {0: "f64", 1: "Dual", 2: "Dual2"}
OPNAME = {0: "dsolve", 1: "fdsolve", 2: "dmul21_", 3: "fdmul21_", 5: "dmul22_(A.t(), A)", 7: "dsolve + residual", 8: "fdsolve + residual"}
RTOL = 1e-9
SINGULAR = ("dup_row", "zero_col", "zero_row", "rank1", "all_zero", "wide_lsq")


# ------------------------------------------------------------------------------------------------
# encoding

def enc_name(s):
    return [len(s)] + [ord(ch) for ch in s]


def enc_entry(kind, e):
    """e = (re, vars[list of str], du[list], dd[list of rows])"""
    re_, vs, du, dd = e
    if kind == 0:
        return [f2b(float(re_))]
    out = [len(vs)]
    for v in vs:
        out += enc_name(v)
    out.append(f2b(float(re_)))
    out += [f2b(float(x)) for x in du]
    if kind == 2:
        for row in dd:
            out += [f2b(float(x)) for x in row]
    return out


def enc_case(sysd, op=None, number=False):
    """sysd: dict(op, kind, lsq, names, r, c, A (r*c entries), b (entries)).
    number=True: the HARNESS form of a system solved at the container type (dsolve::<Number>): kind 3 / 4, every entry
    `number`-encoded - a plain float where the entry has no variables, else the Dual2 / Dual."""
    op = sysd["op"] if op is None else op
    kind = sysd["kind"]
    akind = 0 if op in (1, 3, 8) else kind
    number = number and kind in (1, 2) and akind == kind
    out = [op, (kind + 2 if kind == 1 else 3) if number else kind, (1 if sysd["lsq"] else 0) + 2 * sysd.get("layout", 0), len(sysd["names"])]
    if number:
        out[1] = 3 if kind == 2 else 4

    def ent(k, e):
        if number:
            return [0, f2b(float(e[0]))] if not e[1] else [k] + enc_entry(k, e)
        return enc_entry(k, e)
    for nm in sysd["names"]:
        out += enc_name(nm)
    out += [sysd["r"], sysd["c"]]
    for e in sysd["A"]:
        out += ent(akind, e)
    out.append(len(sysd["b"]))
    for e in sysd["b"]:
        out += ent(kind, e)
    return out


def line(c):
    return " ".join(str(x) for x in c)


LAYOUTS = ["row-major", "column-major", "strided (every other column)", "row-reversed view"]


def model_case(c):
    """the case as the model sees it: the memory layout in which the implementation is handed A (bits 1.. of the third
    field) is no part of the mathematical system; a system encoded for the container type (kind 3 / 4: entries
    `number`-encoded) is the system of constant / dual entries of kind 2 / 1"""
    c = list(c)
    c[2] &= 1
    if c[1] in (3, 4):
        kind = 2 if c[1] == 3 else 1
        i = 4
        m = c[3]
        for _ in range(m):
            i += 1 + c[i]
        r_, c_ = c[i], c[i + 1]
        i += 2
        out = c[:i]
        out[1] = kind

        def one(i):
            tag = c[i]
            if tag == 0:
                return [0, c[i + 1]], i + 2                  # a constant: no variables, the value
            nv = c[i + 1]
            j = i + 2
            for _ in range(nv):
                j += 1 + c[j]
            j += 1 + nv + (nv * nv if kind == 2 else 0)
            return c[i + 1:j], j
        for _ in range(r_ * c_):
            e, i = one(i)
            out += e
        nb = c[i]
        out.append(nb)
        i += 1
        for _ in range(nb):
            e, i = one(i)
            out += e
        return out
    return c


# ------------------------------------------------------------------------------------------------
# small dense linear algebra on Python floats (generation only)

def inv_cond1(M):
    """(cond_1(M), nswaps, tie) by Gauss-Jordan with the code's pivot rule (last max of |.|);
    cond = inf if a pivot vanishes."""
    n = len(M)
    a = [list(map(float, row)) + [1.0 if i == j else 0.0 for j in range(n)] for i, row in enumerate(M)]
    nsw, tie = 0, False
    for j in range(n):
        k, best = j, abs(a[j][j])
        for i in range(j + 1, n):
            v = abs(a[i][j])
            if v >= best:
                if v == best and v > 0:
                    tie = True
                k, best = i, v
        if best < 1e-9:
            return float("inf"), nsw, tie
        if k != j:
            a[j], a[k] = a[k], a[j]
            nsw += 1
        p = a[j][j]
        a[j] = [x / p for x in a[j]]
        for i in range(n):
            if i != j and a[i][j] != 0.0:
                f = a[i][j]
                a[i] = [x - f * y for x, y in zip(a[i], a[j])]
    inv = [row[n:] for row in a]
    n1 = max(sum(abs(M[i][j]) for i in range(n)) for j in range(n))
    n2 = max(sum(abs(inv[i][j]) for i in range(n)) for j in range(n))
    return n1 * n2, nsw, tie


def gram(M):
    r, c = len(M), len(M[0])
    return [[sum(M[k][i] * M[k][j] for k in range(r)) for j in range(c)] for i in range(c)]


# ------------------------------------------------------------------------------------------------
# generation

PATTERNS = ["dense", "zero_diag", "perm_tri", "late_swap", "ties", "sparse", "first_col_zero_top", "near_unit_pivot"]


def gen_int_matrix(rng, r, c, pattern):
    def rnd(lo=-4, hi=4, nz=False):
        while True:
            v = rng.randint(lo, hi)
            if v != 0 or not nz:
                return v
    if pattern == "dense":
        return [[rnd() for _ in range(c)] for _ in range(r)]
    if pattern == "zero_diag":
        return [[0 if i == j else rnd(nz=rng.random() < 0.8) for j in range(c)] for i in range(r)]
    if pattern == "ties":
        vals = rng.choice([[1, -1], [2, -2, 1, -1], [3, -3]])
        return [[rng.choice(vals) for _ in range(c)] for _ in range(r)]
    if pattern == "sparse":
        return [[rnd(nz=True) if rng.random() < 0.45 else 0 for _ in range(c)] for _ in range(r)]
    if pattern == "first_col_zero_top":
        m = [[rnd() for _ in range(c)] for _ in range(r)]
        for i in range(max(1, r - 1)):
            m[i][0] = 0
        m[r - 1][0] = rnd(nz=True)
        return m
    if pattern == "near_unit_pivot":
        # every pivot is close to 1 but NOT 1 (1 + d, |d| between 1e-9 and 1e-5), a few exactly 1: dividing by such a pivot
        # matters in the seventh digit
        m = [[0.0] * c for _ in range(r)]
        for i in range(r):
            for j in range(c):
                if i == j:
                    m[i][j] = 1.0 if rng.random() < 0.2 else 1.0 + rng.choice([1.0, -1.0]) * rng.choice([2.5e-7, 4e-7, 9e-7, 3e-8, 1e-9, 5e-6])
                elif j > i:
                    m[i][j] = float(rnd(-2, 2)) * rng.choice([1.0, 0.5, 0.25])
                elif rng.random() < 0.3:
                    m[i][j] = rng.choice([0.25, -0.25, 0.5, -0.125])
        if rng.random() < 0.4:
            rows = list(range(r))
            rng.shuffle(rows)
            m = [m[i] for i in rows]
        return m
    # triangular based
    n = min(r, c)
    u = [[(rnd(nz=True) if i == j else (rnd(-2, 2) if j > i else 0)) for j in range(c)] for i in range(r)]
    if pattern == "perm_tri":
        rows = list(range(r))
        rng.shuffle(rows)
        return [u[i] for i in rows]
    # late_swap: leading block needs no swap (dominant diagonal), a zero appears on the diagonal late
    m = [[0] * c for _ in range(r)]
    for i in range(r):
        for j in range(c):
            m[i][j] = (rng.choice([5, -5, 6, -6]) if i == j else rnd(-1, 1))
    if n >= 2:
        k = rng.randint(max(0, n - 3), n - 2)
        m[k], m[k + 1] = list(m[k + 1]), list(m[k])  # rows k, k+1 exchanged: |a_kk| small
        m[k][k] = 0
        m[k + 1][k] = rng.choice([5, -5])
    return m


def rand_tags(rng, kind, names, density):
    """(vars, du, dd) for one entry"""
    if kind == 0 or rng.random() > density or not names:
        return [], [], []
    k = rng.choice([1, 1, 2, 2, 3])
    vs = rng.sample(names, min(k, len(names)))
    du = [rng.choice([-2, -1, -0.5, 0.5, 1, 2, 3, 0]) for _ in vs]
    dd = []
    if kind == 2:
        m = len(vs)
        dd = [[0.0] * m for _ in range(m)]
        if rng.random() < 0.7:
            for i in range(m):
                for j in range(i, m):
                    v = rng.choice([0, 0, 0.5, -0.5, 1, -1, 0.25])
                    dd[i][j] = v
                    dd[j][i] = v if rng.random() < 0.9 else rng.choice([0, 1])   # mostly symmetric
    return vs, du, dd


def gen_system(rng, thorough):
    op = rng.choice([0, 0, 0, 1, 1])
    kind = rng.choice([0, 1, 1, 2, 2])
    u = rng.random()
    if u < 0.72:
        shape = "square"
    elif u < 0.90:
        shape = "tall_lsq"
    else:
        shape = "square_lsq"
    if shape == "tall_lsq":
        c = rng.randint(1, 6)
        r = rng.randint(c + 1, min(12, c + 6))
        lsq = True
    else:
        r = c = rng.choice([1, 2, 2, 3, 3, 4, 4, 5, 5, 6, 7, 8])
        lsq = shape == "square_lsq"
    if kind == 2 and r * c > 40 and not thorough and rng.random() < 0.5:
        kind = 1
    pattern = rng.choice(PATTERNS)
    limit = 1e4
    for attempt in range(200):
        M = gen_int_matrix(rng, r, c, pattern)
        G = gram(M) if lsq else M
        cond, nsw, tie = inv_cond1(G)
        if cond <= limit:
            break
        if attempt % 25 == 24:
            pattern = "dense"
    else:
        M = [[(3 if i == j else 0) for j in range(c)] for i in range(r)]
        G = gram(M) if lsq else M
        cond, nsw, tie = inv_cond1(G)
    nn = rng.randint(1, len(ALPHABET))
    used = sorted(rng.sample(ALPHABET, nn))
    dens_a = rng.choice([0.0, 0.3, 0.6, 1.0]) if op in (0,) else 0.0
    dens_b = rng.choice([0.3, 0.7, 1.0])
    akind = kind if op == 0 else 0
    A = []
    for i in range(r):
        for j in range(c):
            vs, du, dd = rand_tags(rng, akind, used, dens_a if M[i][j] != 0 or rng.random() < 0.3 else 0.0)
            A.append((M[i][j], vs, du, dd))
    b = []
    for i in range(r):
        vs, du, dd = rand_tags(rng, kind, used, dens_b)
        b.append((rng.randint(-9, 9), vs, du, dd))
    names = list(used)
    if rng.random() < 0.3:
        names.append("absent")          # a name no entry carries: its derivatives must be 0
    rng.shuffle(names)
    return {"op": op, "kind": kind, "lsq": lsq, "names": names, "r": r, "c": c, "A": A, "b": b,
            "pattern": pattern, "shape": shape, "cond": cond, "nswaps": nsw, "tie": tie, "malformed": None}


def scale_entry(e, f):
    re_, vs, du, dd = e
    return (re_ * f, vs, [x * f for x in du], [[x * f for x in row] for row in dd])


def apply_scaling(rng, s):
    """Magnitude diversity: global / per-row / per-column powers of ten (entries far from 1 in absolute
    terms, as with rows built from POSIX-timestamp knots).  Exponent ranges are reduced where squares
    (least squares) or cubes (Dual2 reciprocal) of the entries are formed, so that everything stays
    finite (well inside 1e-250 .. 1e250)."""
    r, c = s["r"], s["c"]
    g, rw, cl = 25.0, 20.0, 20.0
    if s["kind"] == 2 and s["op"] == 0:
        g, rw, cl = 15.0, 12.0, 12.0
    if s["lsq"]:
        g, rw, cl = g / 4, rw / 4, cl / 4
    A = [list(s["A"][i * c:(i + 1) * c]) for i in range(r)]
    b = list(s["b"])
    classes = []
    u = rng.random()
    kinds = [["global"], ["rows"], ["columns"], ["rows", "columns"], ["global", "rows"]][min(4, int(u * 5))]
    if s["lsq"] and s["kind"] == 2 and s["op"] == 0:
        # weighting the rows of a least-squares problem makes its normal equations ill-conditioned; harmless where the
        # model is bit-exact, but Dual2 division (powf) is compared with a tolerance: scale columns instead
        kinds = [k if k != "rows" else "columns" for k in kinds]
    if "global" in kinds:
        f = 10.0 ** rng.uniform(-g, g)
        A = [[scale_entry(e, f) for e in row] for row in A]
        if rng.random() < 0.5:
            b = [scale_entry(e, f) for e in b]
            classes.append("global (A and b)")
        else:
            classes.append("global (A only)")
    if "rows" in kinds:
        rows = rng.sample(range(r), rng.randint(1, max(1, r // 2 + 1)))
        for i in rows:
            f = 10.0 ** rng.uniform(-rw, rw)
            A[i] = [scale_entry(e, f) for e in A[i]]
            if i < len(b):
                b[i] = scale_entry(b[i], f)
        classes.append("rows of (A|b)")
    if "columns" in kinds:
        cols = rng.sample(range(c), rng.randint(1, max(1, c // 2 + 1)))
        for j in cols:
            f = 10.0 ** rng.uniform(-cl, cl)
            for i in range(r):
                A[i][j] = scale_entry(A[i][j], f)
        classes.append("columns of A")
    t = dict(s)
    t["A"] = [e for row in A for e in row]
    t["b"] = b
    t["scaling"] = classes
    return t


def gen_malformed(rng, thorough):
    s = gen_system(rng, thorough)
    r, c = s["r"], s["c"]
    how = rng.choice(["dup_row", "zero_col", "zero_row", "rank1", "nonsquare_no_lsq", "bad_b_len", "wide_lsq",
                      "lsq_bad_b", "all_zero"])
    A = [list(s["A"][i * c:(i + 1) * c]) for i in range(r)]

    def setre(e, v):
        return (v, e[1], e[2], e[3])
    if how in ("dup_row", "zero_col", "zero_row", "rank1", "all_zero"):
        if s["shape"] == "tall_lsq":
            # singular normal equations: make two columns equal / a column zero
            j = rng.randrange(c)
            j2 = rng.randrange(c)
            for i in range(r):
                A[i][j] = setre(A[i][j], 0 if (how != "dup_row" or j == j2) else A[i][j2][0])
        elif how == "dup_row" and r >= 2:
            i, k = rng.sample(range(r), 2)
            A[i] = [setre(A[i][j], A[k][j][0]) for j in range(c)]
        elif how == "zero_col" or (how == "dup_row" and r < 2):
            j = rng.randrange(c)
            for i in range(r):
                A[i][j] = setre(A[i][j], 0)
        elif how == "zero_row":
            i = rng.randrange(r)
            A[i] = [setre(e, 0) for e in A[i]]
        elif how == "rank1":
            u = [rng.randint(-3, 3) for _ in range(r)]
            v = [rng.randint(-3, 3) for _ in range(c)]
            A = [[setre(A[i][j], u[i] * v[j]) for j in range(c)] for i in range(r)]
        else:
            A = [[setre(e, 0) for e in row] for row in A]
        s["A"] = [e for row in A for e in row]
    elif how == "nonsquare_no_lsq":
        s["lsq"] = False
        if r == c:
            # drop the last column (or add a row when 1 x 1)
            if c >= 2:
                s["A"] = [e for row in A for e in row[:-1]]
                s["c"] = c - 1
            else:
                s["A"] = s["A"] + [s["A"][0]]
                s["b"] = s["b"] + [s["b"][0]]
                s["r"] = 2
    elif how in ("bad_b_len", "lsq_bad_b"):
        if how == "lsq_bad_b":
            s["lsq"] = True
        if rng.random() < 0.5 and len(s["b"]) >= 2:
            s["b"] = s["b"][:-1]
        else:
            s["b"] = s["b"] + [s["b"][0]]
    elif how == "wide_lsq":
        # transpose-shaped: more columns than rows, least squares requested
        if r == c:
            if r >= 2:
                s["A"] = [e for row in A[:-1] for e in row]
                s["b"] = s["b"][:-1]
                s["r"] = r - 1
            else:
                s["A"] = s["A"] + [s["A"][0]]
                s["c"] = 2
        else:
            At = [[A[i][j] for i in range(r)] for j in range(c)]
            s["A"] = [e for row in At for e in row]
            s["r"], s["c"] = c, r
            s["b"] = s["b"][:c]
        s["lsq"] = True
    s["malformed"] = how
    return s


def permuted(rng, s):
    r, c = s["r"], s["c"]
    p = list(range(r))
    while r >= 2 and p == list(range(r)):
        rng.shuffle(p)
    t = dict(s)
    t["A"] = [s["A"][i * c + j] for i in p for j in range(c)]
    t["b"] = [s["b"][i] for i in p]
    return t


def gen_mul_case(rng):
    """dmul21_ / fdmul21_ / dmul22_ on random shapes, incl. a mismatching length (abort)"""
    op = rng.choice([2, 3, 5])
    kind = rng.choice([0, 1, 2])
    r, c = rng.randint(1, 6), rng.randint(1, 6)
    used = sorted(rng.sample(ALPHABET, rng.randint(1, 4)))
    akind = 0 if op == 3 else kind
    A = []
    for _ in range(r * c):
        vs, du, dd = rand_tags(rng, akind, used, 0.5)
        A.append((rng.randint(-4, 4), vs, du, dd))
    nb = c if rng.random() < 0.85 else rng.choice([c + 1, max(0, c - 1)])
    if op == 5:
        nb = 0
    b = []
    for _ in range(nb):
        vs, du, dd = rand_tags(rng, kind, used, 0.6)
        b.append((rng.randint(-5, 5), vs, du, dd))
    return {"op": op, "kind": kind, "lsq": False, "names": used, "r": r, "c": c, "A": A, "b": b,
            "pattern": "mul", "shape": "mul", "cond": 1.0, "nswaps": 0, "tie": False,
            "malformed": ("length mismatch" if (op != 5 and nb != c) else None)}


# ------------------------------------------------------------------------------------------------
# decoding / comparison

def esize(kind, m):
    return 1 if kind == 0 else (1 + m if kind == 1 else 1 + m + m * m)


def split_out(out, kind, m, op):
    """-> (cls, vectors, layout) ; cls in Ok/Err/Panic ; vectors = list of list of entry float lists"""
    if out == [2]:
        return "Panic", None, None
    if out == [1]:
        return "Err", None, None
    if not out or out[0] != 0:
        return "Bad", None, None
    es = esize(kind, m)
    i = 1
    vecs, lays = [], []
    if op == 5:
        rows, cols = out[1], out[2]
        body = out[3:]
        if len(body) != rows * cols * es:
            return "Bad", None, None
        return "Ok", [[[b2f(x) for x in body[k * es:(k + 1) * es]] for k in range(rows * cols)]], [(rows, cols)]
    while i < len(out):
        n = out[i]
        i += 1
        ents = []
        for _ in range(n):
            ents.append([b2f(x) for x in out[i:i + es]])
            i += es
        vecs.append(ents)
        lay = None
        if i < len(out) and out[i] == -7:
            i += 1
            lay = []
            for _ in range(n):
                k = out[i]
                lay.append(tuple(out[i + 1:i + 1 + k]))
                i += 1 + k
        lays.append(lay)
    return "Ok", vecs, lays


def bits_equal(va, vb):
    return all(f2b(x) == f2b(y) or (x != x and y != y) for ea, eb in zip(va, vb) for x, y in zip(ea, eb))


def vec_close(va, vb, rtol=RTOL):
    if len(va) != len(vb):
        return False
    for ea, eb in zip(va, vb):
        if len(ea) != len(eb):
            return False
        for x, y in zip(ea, eb):
            if not fclose(x, y, rtol=rtol):
                return False
    return True


def orders(kind, m):
    """index ranges of the value / first-order / second-order components of one entry"""
    if kind == 0:
        return [(0, 1)]
    if kind == 1:
        return [(0, 1), (1, 1 + m)]
    return [(0, 1), (1, 1 + m), (1 + m, 1 + m + m * m)]


def vec_close_scaled(va, vb, kind, m, noise_rtol):
    """Entries far from 1 in magnitude: no absolute floor.  A component agrees if it is relatively close
    (1e-9), or - only where the model is not bit-exact (noise_rtol > 0: Dual2 division through powf) - if
    the difference is small against the largest component of the same entry."""
    if len(va) != len(vb):
        return False
    for ea, eb in zip(va, vb):
        if len(ea) != len(eb):
            return False
        # a derivative block that is zero in exact arithmetic holds cancellation noise proportional to the entry as
        # a whole (value and derivatives scale together under row / column / global scaling)
        big = max([abs(x) for x in ea + eb if x == x and abs(x) != float("inf")] + [0.0])
        for lo, hi in orders(kind, m):
            for x, y in zip(ea[lo:hi], eb[lo:hi]):
                if fclass(x) != fclass(y):
                    return False
                if fclass(x) != "fin" or x == y:
                    continue
                d = abs(x - y)
                if d <= RTOL * max(abs(x), abs(y)):
                    continue
                if noise_rtol and d <= noise_rtol * big:
                    continue
                return False
    return True


def describe(s, op=None):
    op = s["op"] if op is None else op
    return "%s on a %dx%d system, entries %s%s, allow_lsq=%s, pattern %s%s" % (
        OPNAME[op], s["r"], s["c"], ("f64 matrix / %s rhs" % KINDS[s["kind"]]) if op in (1, 3, 8) else KINDS[s["kind"]],
        "", s["lsq"], s["pattern"], ((", malformed: %s" % s["malformed"]) if s["malformed"] else "") +
        ((", scaled: %s" % "+".join(s["scaling"])) if s.get("scaling") else "") +
        ((", A handed over %s" % LAYOUTS[s["layout"]]) if s.get("layout") else ""))


def readable(s):
    c = s["c"]
    def ent(e):
        if not e[1]:
            return e[0]
        d = {"re": e[0], "vars": e[1], "dual": e[2]}
        if e[3]:
            d["dual2"] = e[3]
        return d
    return {"A": [[ent(e) for e in s["A"][i * c:(i + 1) * c]] for i in range(s["r"])],
            "b": [ent(e) for e in s["b"]], "allow_lsq": s["lsq"], "gradient_names": s["names"]}


def harness_cmd(c):
    return "echo '%s' | harness/target/release/rlharness linalg" % line(c)


# ------------------------------------------------------------------------------------------------

def run(ctx):
    th = ctx.tier == "thorough"
    ctx.rule = ("seeded systems: sizes 1-8 square and tall up to 12x6 with allow_lsq; entries f64 / Dual / Dual2 for dsolve, "
                "f64 matrix with f64 / Dual / Dual2 rhs for fdsolve; integer-valued matrices with cond_1 <= 1e4 (of A, or of A^T A "
                "for least squares) in 7 sparsity patterns forcing pivoting (zero diagonal, permuted triangular, late swap, ties in "
                "|value|, sparse, zero first column on top, dense); variables from a 6-name alphabet tagged on entries of A and b "
                "(overlapping, 1-3 names per entry, optional absent name); ~23% of the systems rescaled far from magnitude 1 (global factor "
                "10^U(-25,25) on A with or without b, rows of (A|b) by 10^U(-20,20), columns of A likewise; reduced ranges where squares / "
                "cubes are formed) and compared without absolute floor; malformed stream: singular matrices, non-square without "
                "allow_lsq, wrong rhs length, wide least squares. Compared: outcome class and every solution value and derivative BY "
                "NAME (gradient1 / gradient2 over the given names) within 1e-9 relative. Non-trivial = a solved system whose pivoting "
                "swapped rows or met a tie, or whose solution has >= 2 non-zero derivative components; distinct by encoded case.")
    ctx.trusted = [
        "Coq 8.16.1 kernel (coqc, full .vo build); no vm_compute inside the C13 proofs",
        "axioms: none for the ring-generic theorems; the standard-library real-number axioms and functional extensionality for the "
        "R / dual-number instances (allow-list of driver/common.py)",
        "IEEE rounding is modelled, not verified: theorems are over exact rings, the code computes in f64 (DESIGN section 7)",
        "the refinement list-based dual numbers -> abstract dual rings D1 / D2 is Proofs/DualP.v (C01-C03)",
        "hand-written model Model/Linalg.v tied to the code by this run's correspondence (harness/src/linalg.rs, Run/RunLinalg.v, "
        "driver/props/c13.py); ndarray views / iterators / cartesian_product order modelled",
    ]
    ctx.assumptions = [
        "no NaN entries (argabsmax's partial_cmp(..).unwrap() aborts on NaN: such a system is not well-conditioned); a NaN produced "
        "by a singular system is inside the compared behaviour",
        "matrices have at least one row and one column (r x 0 / 0 x c arrays are not representable as lists of rows)",
        "`impl Sum for f64` starts from -0.0 (Rust >= 1.83, measured on the toolchain in use)",
    ]
    if not proof_stage(ctx, ["theories/Run/RunLinalg.vo"]):
        ctx.violation("a C13 proof obligation or the model no longer compiles", {
            "no_failing_input": True, "theorem": "Props/C13.v / Run/RunLinalg.v",
            "log_tail": getattr(ctx, "build_log", "")[-3000:]})
        return ctx.finish("make theories/Props/C13.vo")
    if not harness_stage(ctx):
        return ctx.finish("make theories/Props/C13.vo")

    rng = ctx.rng
    nsys = 15000 if th else 1500
    systems = []
    pairs = []           # (index of system, index of its row-permuted twin)
    for i in range(nsys):
        u = rng.random()
        if u < 0.12:
            systems.append(gen_malformed(rng, th))
        elif u < 0.17:
            systems.append(gen_mul_case(rng))
        else:
            s = gen_system(rng, th)
            if rng.random() < 0.23:
                systems.append(apply_scaling(rng, s))
                continue
            systems.append(s)
            if rng.random() < 0.15 and s["r"] >= 2:
                systems.append(permuted(rng, s))
                pairs.append((len(systems) - 2, len(systems) - 1))
    # the same system handed over in another MEMORY LAYOUT (column-major, strided, reversed view): the solution is the same
    for s in systems:
        s["layout"] = rng.choice([0, 0, 0, 1, 1, 2, 3])
        ctx.count("memory layout of A: " + LAYOUTS[s["layout"]])
    # THE GENERIC SOLVER AT THE CONTAINER TYPE (dsolve::<Number>): one dual-number system in four has a random subset of its
    # entries turned into CONSTANTS (no variables) - the implementation receives them as Number::F64 next to Number::Dual /
    # Number::Dual2 entries, the model as constant dual numbers (C18: the container's operations are the lifted ones)
    paired = set(i for pr in pairs for i in pr)
    for si, s in enumerate(systems):
        if si in paired or s.get("scaling"):
            continue
        if s["op"] == 0 and s["kind"] in (1, 2) and not s["malformed"] and rng.random() < 0.3:
            nA = len(s["A"])
            mask = [rng.random() < 0.45 for _ in range(nA + len(s["b"]))]
            if rng.random() < 0.5:
                mask[:nA] = [True] * nA if rng.random() < 0.5 else mask[:nA]
            s["A"] = [(e[0], [], [], []) if m else e for e, m in zip(s["A"], mask[:nA])]
            s["b"] = [(e[0], [], [], []) if m else e for e, m in zip(s["b"], mask[nA:])]
            s["as_number"] = True
            ctx.count("systems solved at the container type Number (floats mixed with %s)" % KINDS[s["kind"]])
    cases = [enc_case(s) for s in systems]
    hcases = [enc_case(s, number=s.get("as_number", False)) for s in systems]
    # the residual oracle runs on the real code only
    oracle_idx = [i for i, s in enumerate(systems) if s["op"] in (0, 1) and not s["malformed"] and not s.get("scaling")]
    oracle_cases = [enc_case(systems[i], op=7 if systems[i]["op"] == 0 else 8) for i in oracle_idx]
    impl = run_harness("linalg", [line(c) for c in hcases + oracle_cases])
    impl_or = impl[len(cases):]
    impl = impl[:len(cases)]
    sizes = [len(c) for c in cases]
    shard = max(4, min(60, len(cases) // (NCPU * 2) + 1))
    model = coq_eval("Run.RunLinalg", "runLinalg", [model_case(c) for c in cases], ctx.work, shard=shard, tag="c13")

    nbit = nlay = nlaytot = 0
    for s, c, a, b in zip(systems, hcases, impl, model):
        ctx.evaluations += 1
        m = len(s["names"])
        op, kind = s["op"], s["kind"]
        ctx.count("op %s" % OPNAME[op])
        ctx.count("entries %s" % KINDS[kind])
        ctx.count("shape %s" % s["shape"])
        ctx.count("size %dx%d" % (s["r"], s["c"]) if s["shape"] != "mul" else "size (mul)")
        if s["malformed"]:
            ctx.count("malformed: %s" % s["malformed"])
        else:
            ctx.count("pattern %s" % s["pattern"])
        ca, va, la = split_out(a, kind, m, op)
        cb, vb, lb = split_out(b, kind, m, op)
        ctx.count("outcome %s" % ca)
        ok = (ca == cb) and ca != "Bad"
        # A SINGULAR system is outside the property ("well-conditioned"): in floating point it divides by rounding noise
        # (or by an exact zero), and which garbage, infinity or NaN comes out - or whether the NaN reaches the pivot search
        # and aborts - depends on the last bit and on the tie-breaking between equal pivots, none of which any property
        # pins.  Such systems are still RUN (no hang, no memory fault) but nothing about their result is compared.
        noise = s["malformed"] in SINGULAR
        if noise:
            ctx.count("singular systems: run, result not compared (outside the property)")
            ok = ca in ("Ok", "Panic") and cb != "Bad"
            if ok:
                continue
        if s.get("scaling"):
            for cl in s["scaling"]:
                ctx.count("scaling: %s" % cl)
        elif s["shape"] != "mul":
            ctx.count("scaling: none")
        if ok and ca == "Ok" and not noise:
            if s.get("scaling"):
                # f64 / Dual / fdsolve are bit-exact in the model; Dual2 division goes through powf
                nr = 1e-7 if (kind == 2 and op == 0) else 0.0
                ok = len(va) == len(vb) and all(vec_close_scaled(x, y, kind, m, nr) for x, y in zip(va, vb))
            else:
                ok = len(va) == len(vb) and all(vec_close(x, y) for x, y in zip(va, vb))
            if not ok and op in (0, 1) and not s["malformed"] and len(va) == len(vb) == 1 and len(va[0]) == len(vb[0]):
                # The two solutions differ beyond 1e-9.  The model follows the code's arithmetic step by step, so on an
                # ill-conditioned system (rows of a least-squares problem weighted by powers of ten, ...) a mathematically
                # neutral rewrite - another pivot among exactly tied candidates, a reciprocal computed once - moves the
                # result by cond * epsilon.  Decide by the forward-error bound of the system actually solved (A, or A^T A
                # with least squares): relative to the largest component of the same derivative order.
                r_, c_ = s["r"], s["c"]
                Are = [[s["A"][i * c_ + j][0] for j in range(c_)] for i in range(r_)]
                M = [[sum(Are[k][i] * Are[k][j] for k in range(r_)) for j in range(c_)] for i in range(c_)] if s["lsq"] else row_equilibrated(Are)
                cnd = cond_inf(M) if len(M) == len(M[0]) else float("inf")
                if not s["lsq"] and len(Are) == len(Are[0]):
                    # elimination with partial pivoting chooses its pivots by ABSOLUTE size: on rows of very different scale its
                    # error is governed by the condition number of the matrix as given, not of the row-equilibrated one (both
                    # the code and the model return rounding noise on a system whose rows are 1e18 apart - checked against
                    # exact rational arithmetic)
                    cr = cond_inf(Are)
                    cnd = max(cnd, cr) if cr == cr else float("inf")
                rt = min(1e-3, 1e-9 + 1e-13 * cnd) if cnd == cnd else 1e-3
                good = True
                if not (cnd == cnd) or cnd > 1e12:
                    # singular to working precision: the VALUES are not compared at all (outcome classes and shapes were)
                    ctx.count("systems singular to working precision (cond > 1e12 as given): values not compared")
                    ok = True
                    continue
                for lo, hi in orders(kind, m):
                    blk = [x for e in va[0] + vb[0] for x in e[lo:hi] if x == x and abs(x) != float("inf")]
                    big = max([abs(x) for x in blk] + [0.0])
                    for ea, eb in zip(va[0], vb[0]):
                        for x, y in zip(ea[lo:hi], eb[lo:hi]):
                            if x == y or (x != x and y != y):
                                continue
                            if fclass(x) != fclass(y) or fclass(x) != "fin" or abs(x - y) > rt * big:
                                good = False
                if good:
                    ok = True
                    ctx.count("agreement only within the forward-error bound 1e-13 * cond (cond = %s)" % (
                        "1e%d" % int(math.log10(cnd)) if 0 < cnd < float("inf") else "inf"))
        if not ok:
            ctx.violation(
                "the implementation and the proved model disagree on %s: implementation %s, model %s (solution values and "
                "derivatives by name, order %s)" % (describe(s), summarize(ca, va), summarize(cb, vb), s["names"]),
                {"system": readable(s), "op": op, "kind": kind, "case": c, "implementation": a[:400], "model": b[:400],
                 "harness_cmd": harness_cmd(c)[:20000]})
            continue
        if ca == "Ok":
            if len(va) == len(vb) and all(bits_equal(x, y) for x, y in zip(va, vb)):
                nbit += 1
            if op != 5 and la and la[0] is not None:
                nlaytot += 1
                if la == lb:
                    nlay += 1
            if op in (0, 1) and not s["malformed"]:
                x = va[0]
                nder = sum(1 for e in x for g in e[1:] if g != 0.0 and g == g)
                if s["nswaps"] > 0 or s["tie"] or nder >= 2:
                    ctx.nontriv(tuple(c))
                ctx.count("pivoting: %s" % ("row swaps" if s["nswaps"] else "no swap"))
                if s["tie"]:
                    ctx.count("pivoting: tie in |value| met")
    ctx.notes.append("bit-identical Ok results (model float = IEEE f64): %d of %d; stored variable order identical: %d of %d" % (
        nbit, sum(1 for a in impl if a[:1] == [0]), nlay, nlaytot))

    # oracle 1 (real code only): residual M x - v through the real dmul21_ / fdmul21_
    for i, a in zip(oracle_idx, impl_or):
        s = systems[i]
        m = len(s["names"])
        op = 7 if s["op"] == 0 else 8
        ctx.evaluations += 1
        ca, va, _ = split_out(a, s["kind"], m, op)
        if ca != "Ok" or len(va) != 2:
            if ca == "Panic" and impl[i] == [2]:
                continue
            ctx.violation("residual oracle: %s did not return on a well-conditioned system (%s)" % (describe(s, op), ca),
                          {"system": readable(s), "op": op, "case": enc_case(s, op=op), "implementation": a[:200],
                           "harness_cmd": harness_cmd(enc_case(s, op=op))[:20000]})
            continue
        res, v = va
        so = split_out(impl[i], s["kind"], m, s["op"])
        if so[0] != "Ok" or not so[1]:
            continue          # the solve itself did not return a vector (reported by the comparison above)
        sol = so[1][0]
        amax = max([abs(e[0]) for e in s["A"]] + [abs(g) for e in s["A"] for g in e[2]] + [1.0])
        xmax = max([abs(g) for e in sol for g in e] + [1.0])
        vmax = max([abs(g) for e in v for g in e] + [1.0])
        scale = max(vmax, amax * amax * xmax * s["r"] * s["c"]) * max(1.0, min(s["cond"], 1e4))
        worst = max([abs(g) for e in res for g in e] + [0.0])
        finite = all(g == g and abs(g) != float("inf") for e in res for g in e)
        if not finite or worst > 1e-9 * scale:
            ctx.violation("residual oracle: the solution returned by %s does not satisfy %s in value and derivatives: "
                          "largest residual component %.3e (scale %.3e)" % (
                              describe(s), "(A^T A) x = A^T b" if s["lsq"] else "A x = b", worst, scale),
                          {"system": readable(s), "op": op, "case": enc_case(s, op=op), "implementation": a[:400],
                           "oracle": "residual", "harness_cmd": harness_cmd(enc_case(s, op=op))[:20000]})
    # oracle 2 (real code only): the row order of (A | b) does not change the answer
    for i, j in pairs:
        s = systems[i]
        m = len(s["names"])
        ctx.evaluations += 1
        ca, va, _ = split_out(impl[i], s["kind"], m, s["op"])
        cb, vb, _ = split_out(impl[j], s["kind"], m, s["op"])
        ctx.count("row-permutation pairs")
        good = ca == cb
        if good and ca == "Ok":
            xmax = max([abs(g) for e in va[0] for g in e] + [1.0])
            tol = 1e-10 * max(1.0, s["cond"]) ** 2
            good = all(abs(x - y) <= tol * xmax for ea, eb in zip(va[0], vb[0]) for x, y in zip(ea, eb))
        if not good:
            ctx.violation("row order changes the answer of %s" % describe(s),
                          {"system": readable(s), "permuted": readable(systems[j]), "op": s["op"], "case": cases[i], "case_permuted": cases[j],
                           "oracle": "row permutation", "implementation": impl[i][:200], "implementation_permuted": impl[j][:200]})
    for s, a in list(zip(systems, impl))[:4]:
        ctx.sample({"call": describe(s), "system": readable(s), "result_class": split_out(a, s["kind"], len(s["names"]), s["op"])[0]})
    return ctx.finish("make -C coq theories/Props/C13.vo theories/Run/RunLinalg.vo && coqc Assum_C13.v (Print Assumptions)")


def summarize(cls, vecs):
    if cls != "Ok":
        return cls
    return "Ok(%s)" % (", ".join("%.12g" % e[0] for e in vecs[0][:8]))


def replay(ctx, rp):
    build_harness()
    build_coq(["theories/Run/RunLinalg.vo"])
    c = rp["case"]
    op = c[0]
    a = run_harness("linalg", [line(c)])[0]
    if op in (7, 8) or rp.get("oracle") == "residual":
        print("replay residual oracle: implementation output", a[:60])
        kind, m = c[1], c[3]
        ca, va, _ = split_out(a, kind, m, op)
        worst = max([abs(g) for e in (va[0] if va else []) for g in e] + [0.0]) if ca == "Ok" else float("inf")
        print("class %s, largest residual component %.3e" % (ca, worst))
        ctx.cleanup()
        return 0 if (ca == "Ok" and worst <= 1e-6) else 1
    if rp.get("oracle") == "row permutation":
        a2 = run_harness("linalg", [line(rp["case_permuted"])])[0]
        kind, m = c[1], c[3]
        ca, va, _ = split_out(a, kind, m, op)
        cb, vb, _ = split_out(a2, kind, m, op)
        same = ca == cb and (ca != "Ok" or vec_close(va[0], vb[0], rtol=1e-6))
        print("replay row permutation: %s vs %s" % (summarize(ca, va), summarize(cb, vb)))
        ctx.cleanup()
        return 0 if same else 1
    b = coq_eval("Run.RunLinalg", "runLinalg", [model_case(c)], ctx.work)[0]
    kind, m = {3: 2, 4: 1}.get(c[1], c[1]), c[3]
    ca, va, _ = split_out(a, kind, m, op)
    cb, vb, _ = split_out(b, kind, m, op)
    same = ca == cb and (ca != "Ok" or (len(va) == len(vb) and all(vec_close(x, y) for x, y in zip(va, vb))))
    print("replay %s: implementation %s, model %s" % (OPNAME.get(op, op), summarize(ca, va), summarize(cb, vb)))
    # independent oracle on the real code: residual through dmul21_
    if op in (0, 1):
        c2 = [7 if op == 0 else 8] + list(c[1:])
        r = run_harness("linalg", [line(c2)])[0]
        cr, vr, _ = split_out(r, kind, m, c2[0])
        if cr == "Ok":
            print("residual oracle (real dmul21_): largest component %.3e" % max([abs(g) for e in vr[0] for g in e] + [0.0]))
        else:
            print("residual oracle: %s" % cr)
    ctx.cleanup()
    return 0 if same else 1
