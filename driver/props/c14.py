"""C14 — B-spline basis: non-negative local partition of unity, correct derivatives.
Proof: Props/C14.v (model Model/Spline.v at T := R against the Cox-de Boor piece polynomials).
Correspondence: the same model at T := float (Run/RunSpline.v) against bsplev_single_f64 /
bspldnev_single_f64 through the harness (`rlharness spline`), bit patterns of every result."""
import math
from common import *  # noqa
import props.c15 as c15

RUN_TARGET = "theories/Run/RunSpline.vo"
OPS = {"ev": 0, "dn": 1, "grid": 2}


def line(c):
    return c[0] + " " + " ".join(str(x) for x in c[1:])


def zcase(c):
    return [OPS[c[0]]] + list(c[1:])


def decode(out):
    """concatenated outcomes -> list of ('ok', bits) / ('err',) / ('panic',)"""
    res = []
    i = 0
    while i < len(out):
        if out[i] == 0:
            res.append(("ok", out[i + 1]))
            i += 2
        elif out[i] == 1:
            res.append(("err",))
            i += 1
        elif out[i] == 2:
            res.append(("panic",))
            i += 1
        else:
            raise CheckError("undecodable spline output %s" % out[:20])
    return res


# ------------------------------------------------------------------------------------------------
# generators

LAST_SCALE = ["unit"]


def gen_values(rng, count):
    """`count` strictly increasing breakpoints; about a quarter on timestamp / tiny / huge scales"""
    LAST_SCALE[0] = "unit"
    style = rng.random()
    if style < 0.3:
        start = rng.randint(-3, 5)
        vals = [float(start + i) for i in range(count)]
    elif style < 0.5:
        start = rng.randint(-3, 5)
        vals = [float(start)]
        for _ in range(count - 1):
            vals.append(vals[-1] + rng.choice([0.25, 0.5, 1.0, 1.5, 2.0, 3.0]))
    elif style < 0.7:
        vals = [rng.uniform(-10, 10)]
        for _ in range(count - 1):
            vals.append(vals[-1] + rng.uniform(0.01, 5.0))
    elif style < 0.75:  # large offsets / mixed spans
        vals = [rng.choice([1e6, -1e6, 45000.0, 1e-3])]
        for _ in range(count - 1):
            vals.append(vals[-1] + rng.choice([1e-3, 1.0, 365.0, 1e3]))
        LAST_SCALE[0] = "mixed"
    elif style < 0.87:  # POSIX timestamps in seconds, nodes months to years apart
        vals = [float(rng.randint(1000000000, 1900000000))]
        for _ in range(count - 1):
            vals.append(vals[-1] + rng.choice([86400.0 * 30, 86400.0 * 365, 86400.0 * 365 * 5,
                                               float(int(10 ** rng.uniform(6, 9)))]))
        LAST_SCALE[0] = "timestamp"
    elif style < 0.93:  # tiny spacing
        h = 10 ** rng.uniform(-6, -3)
        vals = [rng.choice([0.0, rng.uniform(-1, 1)])]
        for _ in range(count - 1):
            vals.append(vals[-1] + h * rng.uniform(0.5, 2.0))
        LAST_SCALE[0] = "tiny"
    else:  # huge spacing
        h = 10 ** rng.uniform(9, 12)
        vals = [rng.choice([0.0, 1e12, -3e11])]
        for _ in range(count - 1):
            vals.append(vals[-1] + h * rng.uniform(0.5, 2.0))
        LAST_SCALE[0] = "huge"
    return vals


def gen_knots(rng, k, kind):
    """kind: 'standard' (k-fold ends, interior multiplicity <= max(1,k-1)), 'fullmult' (an interior
    knot of multiplicity k), 'openleft' (simple knots on the left), 'bad' (right end not k-fold /
    decreasing / too short)"""
    nint = rng.choice([0, 1, 1, 2, 2, 3, 3, 4, 5])
    mults = []
    for _ in range(nint):
        mmax = max(1, k - 1)
        mults.append(rng.choice([1, 1, rng.randint(1, mmax), mmax]))
    # keep within 4..14 knots where the order allows it
    while 2 * k + sum(mults) > max(14, 2 * k + 1) and mults:
        mults.pop()
    vals = gen_values(rng, len(mults) + 2)
    t = [vals[0]] * k
    for v, m in zip(vals[1:-1], mults):
        t += [v] * m
    t += [vals[-1]] * k
    if kind == "fullmult" and mults:
        j = rng.randrange(len(mults))
        t = [vals[0]] * k
        for q, (v, m) in enumerate(zip(vals[1:-1], mults)):
            t += [v] * (k if q == j else m)
        t += [vals[-1]] * k
    elif kind == "openleft":
        lead = gen_values(rng, k)
        shift = lead[-1] - vals[0]
        t = [v - shift - 1.0 for v in lead[:-1]] + t[k - 1:]
    elif kind == "bad":
        how = rng.choice(["short_end", "long_end", "decreasing", "tiny", "nan", "inf"])
        if how == "short_end" and k > 1:
            t = t[:-1]
        elif how == "long_end":
            t = t + [t[-1]]
        elif how == "decreasing":
            t = list(reversed(t))
        elif how == "tiny":
            t = t[:rng.randint(0, min(len(t), k))]
        elif how == "nan":
            t[rng.randrange(len(t))] = float("nan")
        else:
            t[-1] = float("inf")
            if k > 1:
                t[-2] = float("inf")
    return t


def gen_xs(rng, t, k, thorough):
    xs = []
    fin = [v for v in t if math.isfinite(v)]
    if not fin:
        return [0.0, 1.0]
    distinct = sorted(set(fin))
    xs += distinct                                     # every knot, both end points
    for a, b in zip(distinct, distinct[1:]):
        xs.append((a + b) / 2)                          # midpoints
    lo, hi = distinct[0], distinct[-1]
    for _ in range(6 if thorough else 3):
        xs.append(rng.uniform(lo, hi) if hi > lo else lo)
    # neighbours of knots (one ulp) - the half-open span logic
    for v in rng.sample(distinct, min(len(distinct), 3)):
        xs.append(math.nextafter(v, math.inf))
        xs.append(math.nextafter(v, -math.inf))
    # points at SMALL RELATIVE DISTANCES from knots (1e-7 .. 1e-3 of the domain width, both sides): a function that has just
    # entered or is about to leave its support is tiny there but not zero, and a point near an end is not the end
    width = hi - lo
    if width > 0 and math.isfinite(width):
        for v in rng.sample(distinct, min(len(distinct), 4)) + [lo, hi]:
            for rel in (1e-7, 5e-7, 2e-6, 1e-4, 2e-3):
                for sgn in (1.0, -1.0):
                    y = v + sgn * rel * width
                    if lo <= y <= hi and rng.random() < 0.5:
                        xs.append(y)
    # outside the domain
    span = max(1.0, hi - lo)
    xs += [lo - rng.uniform(0.1, 2) * span, hi + rng.uniform(0.1, 2) * span]
    if rng.random() < 0.15:
        xs.append(rng.choice([float("nan"), float("inf"), float("-inf"), -0.0]))
    return xs


def gen_cases(ctx):
    rng = ctx.rng
    thorough = ctx.tier == "thorough"
    cases = []
    meta = []
    nvec = 900 if thorough else 300
    for q in range(nvec):
        k = 1 + q % 6 if q < 12 else rng.randint(1, 6)
        r = rng.random()
        kind = "standard" if r < 0.7 else "fullmult" if r < 0.8 else "openleft" if r < 0.88 else "bad"
        t = gen_knots(rng, k, kind)
        xs = gen_xs(rng, t, k, thorough)
        n = max(len(t) - k, 0)
        imax = n + 2                                    # two indices beyond the last function
        mmax = k + 1
        cases.append(("grid", k, imax, mmax, len(t)) + tuple(f2b(v) for v in t) + (len(xs),) + tuple(f2b(x) for x in xs))
        meta.append({"kind": kind, "k": k, "t": t, "xs": xs, "imax": imax, "mmax": mmax})
        ctx.count("knots:" + kind)
        ctx.count("scale:" + LAST_SCALE[0])
        ctx.count("order:%d" % k)
        ctx.count("nknots:%d" % len(t))
    # single calls with an explicit org_k (exposed to Python), k = 0, indices out of range
    nsingle = 6000 if thorough else 1000
    for _ in range(nsingle):
        k = rng.choice([0, 1, 2, 3, 4, 5, 6, rng.randint(1, 6)])
        t = gen_knots(rng, max(k, 1), "standard" if rng.random() < 0.85 else "bad")
        n = len(t) - k
        i = rng.choice([rng.randint(0, max(n - 1, 0)), rng.randint(0, max(n - 1, 0)), n, n + 1, len(t), len(t) + 3, 0])
        fl = rng.choice([0, 1, 1])
        org = rng.choice([k, k + 1, k + 2, 0, 1, len(t) - 1, len(t), len(t) + 1, rng.randint(0, 8)])
        fin = [v for v in t if math.isfinite(v)] or [0.0]
        x = rng.choice([rng.choice(fin), fin[-1], fin[0], rng.uniform(min(fin), max(fin))])
        if rng.random() < 0.5:
            cases.append(("ev", i, k, fl, org, len(t)) + tuple(f2b(v) for v in t) + (f2b(x),))
            meta.append({"kind": "single", "k": k, "t": t, "x": x, "i": i, "org": org if fl else None})
        else:
            m = rng.randint(0, k + 1)
            cases.append(("dn", i, k, m, fl, org, len(t)) + tuple(f2b(v) for v in t) + (f2b(x),))
            meta.append({"kind": "single", "k": k, "t": t, "x": x, "i": i, "m": m, "org": org if fl else None})
        ctx.count("single:" + cases[-1][0])
    return cases, meta


def position(meta, pos):
    """which (x, i, what) a position of a grid output refers to"""
    per_i = meta["mmax"] + 2
    per_x = meta["imax"] * per_i
    xi, rem = divmod(pos, per_x)
    i, w = divmod(rem, per_i)
    what = "bsplev_single_f64" if w == 0 else "bspldnev_single_f64 m=%d" % (w - 1)
    return meta["xs"][xi], i, what


def compare_case(ctx, ci, c, meta, a, b, stats):
    try:
        da, db = decode(a), decode(b)
    except CheckError:
        da, db = None, None
    if da is None or len(da) != len(db):
        ctx.violation("spline.rs and the proved model return differently shaped results on %s" % line(c)[:300],
                      {"case": list(c), "implementation": a[:60], "model": b[:60]})
        return
    for pos, (ra, rb) in enumerate(zip(da, db)):
        ctx.evaluations += 1
        ok = True
        if ra[0] != rb[0]:
            ok = False
        elif ra[0] == "ok":
            if ra[1] == rb[1]:
                stats["bit_equal"] += 1
            elif math.isnan(b2f(ra[1])) and math.isnan(b2f(rb[1])):
                stats["nan_both"] = stats.get("nan_both", 0) + 1      # sign/payload of a NaN is not compared
            else:
                stats["bit_differs"] += 1
                ok = fclose(b2f(ra[1]), b2f(rb[1]))
                if not ok:
                    # an m-th derivative of a basis function is a sum of terms of size (2k / h)^m (h = the smallest knot gap in
                    # its support) that largely cancel: its rounding noise is epsilon times THAT, whatever its own size - two
                    # evaluation orders of the same recursion differ by it on knots 1e-6 apart
                    try:
                        if meta["kind"] == "single":
                            i_, m_ = meta["i"], meta.get("m", 0)
                        else:
                            _x, i_, w_ = position(meta, pos)
                            m_ = 0 if w_.startswith("bsplev") else int(w_.split("m=")[1])
                        k_, t_ = meta["k"], meta["t"]
                        sup = t_[i_:i_ + k_ + 1] if 0 <= i_ < len(t_) else t_
                        gaps = [q - p for p, q in zip(sup, sup[1:]) if q > p and math.isfinite(q - p)] or \
                               [q - p for p, q in zip(t_, t_[1:]) if q > p and math.isfinite(q - p)]
                        if gaps and m_ > 0:
                            bound = 4e-13 * (2.0 * max(k_, 1) / min(gaps)) ** m_
                            fa_, fb_ = b2f(ra[1]), b2f(rb[1])
                            if math.isfinite(fa_) and math.isfinite(fb_) and abs(fa_ - fb_) <= bound:
                                ok = True
                                stats["within_derivative_noise_bound"] = stats.get("within_derivative_noise_bound", 0) + 1
                    except (KeyError, ValueError, IndexError, ZeroDivisionError, OverflowError):
                        pass
            v = b2f(ra[1])
            if v != 0.0:
                ctx.nontriv((ci, pos))
        else:
            ctx.nontriv((ci, pos))
        stats["class:" + ra[0]] = stats.get("class:" + ra[0], 0) + 1
        if not ok:
            if meta["kind"] == "single":
                where = "x=%r i=%d k=%d org_k=%r%s" % (meta["x"], meta["i"], meta["k"], meta["org"],
                                                       (" m=%d" % meta["m"]) if "m" in meta else "")
            else:
                x, i, what = position(meta, pos)
                where = "%s x=%r i=%d k=%d" % (what, x, i, meta["k"])
            show = lambda r: (repr(b2f(r[1])) if r[0] == "ok" else r[0])
            ctx.violation("spline.rs and the proved model disagree: %s on knots %r: implementation %s, model %s" % (
                where, meta["t"], show(ra), show(rb)),
                {"case": list(c), "position": pos, "where": where, "knots": meta["t"],
                 "implementation": show(ra), "model": show(rb),
                 "harness_cmd": "echo '%s' | harness/target/release/rlharness spline" % line(c)})
            return


def matrix_line(k, ln, rn, t, tau):
    return "mat %d %d %d %d %s %d %s" % (k, ln, rn, len(t), " ".join(str(f2b(v)) for v in t), len(tau),
                                         " ".join(str(f2b(v)) for v in tau))


def matrix_expected(db, mt, n, tau_idx, ln, rn):
    """the entries PPSpline::bsplmatrix must hold, read off the MODEL's grid output `db`: row j, column i = the ln-th (first
    row) / rn-th (last row; it wins on a one-row matrix) derivative, else the value, of function i at tau[j]"""
    per_i = mt["mmax"] + 2
    per_x = mt["imax"] * per_i
    rows = []
    for j, xi in enumerate(tau_idx):
        w = (rn + 1) if j == len(tau_idx) - 1 else (ln + 1) if j == 0 else 0
        rows.append([db[xi * per_x + i * per_i + w] for i in range(n)])
    return rows


def matrix_compare(out, exp, k=None, t=None, ln=0, rn=0):
    """None when the matrix equals the expected entries, else a description (derivative rows within the rounding-noise
    bound 4e-13 (2k / h)^m of their own recursion, h the smallest knot gap in the function's support)"""
    nr, nc = len(exp), len(exp[0]) if exp else 0
    if out[:1] != [0] or len(out) < 3 or out[1] != nr or out[2] != nc or len(out) != 3 + nr * nc:
        return "outcome / shape %s, expected a %d x %d matrix" % (out[:3], nr, nc)
    for j in range(nr):
        for i in range(nc):
            e, g = exp[j][i], out[3 + j * nc + i]
            if e[0] != "ok":
                return "row %d column %d: the model's basis evaluation aborts" % (j, i)
            if g != e[1] and not (math.isnan(b2f(g)) and math.isnan(b2f(e[1]))) and not fclose(b2f(g), b2f(e[1])):
                m_ = (rn if j == nr - 1 else ln if j == 0 else 0)
                if k is not None and t is not None and m_ > 0:
                    sup = t[i:i + k + 1]
                    gaps = [q - p for p, q in zip(sup, sup[1:]) if q > p] or [q - p for p, q in zip(t, t[1:]) if q > p]
                    if gaps and abs(b2f(g) - b2f(e[1])) <= 4e-13 * (2.0 * k / min(gaps)) ** m_:
                        continue
                return "row %d column %d: %r, expected %r" % (j, i, b2f(g), b2f(e[1]))
    return None


def matrix_stage(ctx, cases, meta, model):
    """THE COLLOCATION MATRIX (PPSpline::bsplmatrix: one row per site, derivative rows at the two end sites) holds exactly the
    basis values / right-derivatives of the property: sites drawn from the evaluation points of the grid cases - interior
    knots of any multiplicity, end points, midpoints - with end derivative orders 0..k; entries compared with the MODEL's
    grid results for the same knots (already computed for the comparison above)"""
    rng = ctx.rng
    jobs = []
    for ci, (c, mt) in enumerate(zip(cases, meta)):
        if c[0] != "grid" or mt["kind"] == "bad" or model[ci] is None:
            continue
        try:
            db = decode(model[ci])
        except CheckError:
            continue
        k, t, xs = mt["k"], mt["t"], mt["xs"]
        n = len(t) - k
        if n < 1 or len(db) != len(xs) * mt["imax"] * (mt["mmax"] + 2):
            continue
        inside = sorted(set((x, xi) for xi, x in enumerate(xs) if math.isfinite(x) and t[0] <= x <= t[-1]), key=lambda p: p[0])
        # one index per distinct abscissa
        uniq = {}
        for x, xi in inside:
            uniq.setdefault(x, xi)
        pts = sorted(uniq.items())
        knots = [p for p in pts if p[0] in set(t[k:-k] if k < len(t) - k else [])]
        for _ in range(2):
            if len(pts) < 1:
                break
            m = rng.randint(1 if rng.random() < 0.1 else 2, max(2, min(len(pts), n + 2)))
            m = min(m, len(pts))
            pick = sorted(rng.sample(pts, m))
            # often an INTERIOR KNOT as the first / last site (derivative rows taken exactly at a knot)
            if knots and rng.random() < 0.6:
                kn = rng.choice(knots)
                rest = [p for p in pick if p != kn]
                pick = ([kn] + [p for p in rest if p[0] > kn[0]]) if rng.random() < 0.5 else ([p for p in rest if p[0] < kn[0]] + [kn])
            ln, rn = rng.randint(0, k), rng.randint(0, k)
            if rng.random() < 0.5:
                ln = rng.randint(max(0, k - 2), k)
            if rng.random() < 0.5:
                rn = rng.randint(max(0, k - 2), k)
            tau_idx = [xi for _, xi in pick]
            exp = matrix_expected(db, mt, n, tau_idx, ln, rn)
            if any(e[0] != "ok" for row in exp for e in row):
                continue
            jobs.append((ci, ln, rn, [x for x, _ in pick], exp))
    outs = run_harness("spline", [matrix_line(meta[ci]["k"], ln, rn, meta[ci]["t"], tau) for ci, ln, rn, tau, _ in jobs])
    for (ci, ln, rn, tau, exp), o in zip(jobs, outs):
        mt = meta[ci]
        ctx.evaluations += len(exp) * (len(exp[0]) if exp else 0)
        ctx.count("collocation matrix: k=%d" % mt["k"])
        at_knot = [x in mt["t"][mt["k"]:len(mt["t"]) - mt["k"]] for x in (tau[0], tau[-1])]
        ctx.count("collocation matrix: end site at an interior knot" if any(at_knot) else "collocation matrix: end sites elsewhere")
        ctx.nontriv(("mat", ci, ln, rn, tuple(tau)))
        bad = matrix_compare(o, exp, mt["k"], mt["t"], ln, rn)
        if bad:
            ctx.violation("PPSpline::bsplmatrix(tau = %r, left_n = %d, right_n = %d) on k = %d, knots %r does not hold the basis "
                          "derivatives of the proved model: %s" % (tau, ln, rn, mt["k"], mt["t"], bad),
                          {"matrix": True, "k": mt["k"], "knots": mt["t"], "tau": tau, "left_n": ln, "right_n": rn,
                           "implementation": o[:80],
                           "harness_cmd": "echo '%s' | harness/target/release/rlharness spline" % matrix_line(mt["k"], ln, rn, mt["t"], tau)})


def run(ctx):
    ctx.rule = ("orders 1-6 (plus k = 0 in single calls); knot vectors with k-fold end knots and 0-5 interior "
                "breakpoints of multiplicity 1..k-1 (4-14 knots where the order allows), plus interior multiplicity k, "
                "knot values on unit, POSIX-timestamp (offset ~1e9, spacing 1e6..1e9), tiny (1e-6..1e-3) and huge (up to 1e12) scales; "
                "simple left knots and malformed vectors (short/long end knot, decreasing, truncated, NaN, inf); "
                "every basis index 0..n+1 (two beyond the last function: abort class), m = 0..k+1; x at every knot, "
                "both end points, midpoints, one-ulp neighbours of knots, random interior points, points outside the "
                "domain, occasionally NaN/inf/-0.0; single calls with an explicit org_k. Every result compared as "
                "IEEE-754 bit pattern (tolerance 1e-9 relative only if the bits differ). Non-trivial = a non-zero "
                "value or an abort; distinct by (case, position).")
    ctx.trusted = [
        "Coq 8.16.1 kernel (coqc, full .vo build)",
        "axioms: the classical real numbers of the Coq standard library (sig_forall_dec, sig_not_dec, "
        "functional_extensionality_dep, classic; constructive_indefinite_description enters only through the "
        "Num R record field nicdf, unused by the spline model)",
        "the theorems are about the model at T := R: floating-point rounding is outside them (DESIGN 7)",
        "correspondence: harness/src/spline.rs, driver/props/c14.py, Base/NumFloat.v (PrimFloat = IEEE binary64), "
        "coqc's evaluation and printing of Eval vm_compute",
    ]
    ctx.assumptions = ["knot vector: non-decreasing, n >= k >= 1, right end knot exactly k-fold (`admissible`); "
                       "nothing assumed about the left end or interior multiplicities",
                       "real arithmetic (no rounding) in the theorems"]
    proved = proof_stage(ctx, extra_targets=[RUN_TARGET])
    if not proved:
        ctx.violation("a C14 proof obligation no longer compiles", {"no_failing_input": True,
                      "theorem": "Props/C14.v", "log_tail": getattr(ctx, "build_log", "")[-3000:]})
        return ctx.finish("make theories/Props/C14.vo")
    if not harness_stage(ctx):
        return ctx.finish("make theories/Props/C14.vo")
    cases, meta = gen_cases(ctx)
    impl = run_harness("spline", [line(c) for c in cases])
    grid_idx = [i for i, c in enumerate(cases) if c[0] == "grid"]
    single_idx = [i for i, c in enumerate(cases) if c[0] != "grid"]
    model = [None] * len(cases)
    gs = max(1, len(grid_idx) // (NCPU * 2) + 1)
    for idx, shard in ((grid_idx, min(gs, 12)), (single_idx, 250)):
        res = coq_eval("Run.RunSpline", "runSplineC14", [zcase(cases[i]) for i in idx], ctx.work, shard=shard,
                       tag="s%d" % shard)
        for i, r in zip(idx, res):
            model[i] = r
    stats = {"bit_equal": 0, "bit_differs": 0}
    for ci, (c, mt, a, b) in enumerate(zip(cases, meta, impl, model)):
        compare_case(ctx, ci, c, mt, a, b, stats)
    matrix_stage(ctx, cases, meta, model)
    # one basis function at a Dual / Dual2 ABSCISSA (bsplev_single_dual(2): value B_i, slope B_i' dX, curvature) and the
    # vector form PPSpline::bspldnev: the same derivatives the property speaks of, read through the AD path - at knots, at
    # the right end point, outside the domain (generators and comparison shared with C15; model: Props/C15.v C15_basis_*)
    c15.basis_stage(ctx, only=("evd", "vec"))
    # ... and through the spline's own evaluation entry points on unit coefficients (ppdnev_single / _dual / _dual2 at every
    # knot for every derivative order): the third way the basis derivatives are read
    c15.unit_spline_stage(ctx)
    for k, v in stats.items():
        ctx.count("result:" + k, v)
    ctx.notes.append("results bit-identical: %d, differing in bits but within 1e-9: %d" % (stats["bit_equal"], stats["bit_differs"]))
    for c, mt, a in list(zip(cases, meta, impl))[:3]:
        if mt["kind"] != "single":
            ctx.sample({"knots": mt["t"], "k": mt["k"], "x": mt["xs"][:4], "first_results": a[:12]})
    return ctx.finish("make -C coq theories/Props/C14.vo theories/Run/RunSpline.vo && coqc Assum_C14.v (Print Assumptions)")


def replay(ctx, rp):
    if "basis_op" in rp or "variant" in rp:      # stages shared with C15 (basis at dual abscissae, unit-coefficient splines)
        return c15.replay(ctx, rp)
    build_harness()
    build_coq(coq_targets_for("C14") + [RUN_TARGET])
    if rp.get("matrix"):
        k, t, tau, ln, rn = rp["k"], rp["knots"], rp["tau"], rp["left_n"], rp["right_n"]
        n = len(t) - k
        g = ("grid", k, n, k + 1, len(t)) + tuple(f2b(v) for v in t) + (len(tau),) + tuple(f2b(x) for x in tau)
        db = decode(coq_eval("Run.RunSpline", "runSplineC14", [zcase(g)], ctx.work)[0])
        exp = matrix_expected(db, {"mmax": k + 1, "imax": n}, n, list(range(len(tau))), ln, rn)
        o = run_harness("spline", [matrix_line(k, ln, rn, t, tau)])[0]
        bad = matrix_compare(o, exp, k, t, ln, rn)
        print("replay bsplmatrix: %s" % (bad or "agrees with the model"))
        ctx.cleanup()
        return 1 if bad else 0
    c = rp["case"]
    a = run_harness("spline", [line(c)])
    b = coq_eval("Run.RunSpline", "runSplineC14", [zcase(c)], ctx.work)
    pos = rp.get("position")
    da, db = decode(a[0]), decode(b[0])
    if pos is not None and pos < len(da) and pos < len(db):
        print("case", rp.get("where"), "implementation", da[pos], "model", db[pos])
    else:
        print("implementation", a[0][:40], "model", b[0][:40])
    ctx.cleanup()
    same = len(da) == len(db) and all(
        x[0] == y[0] and (x[0] != "ok" or x[1] == y[1] or fclose(b2f(x[1]), b2f(y[1]))) for x, y in zip(da, db))
    return 0 if same else 1
