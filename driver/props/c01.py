"""C01 — first-order AD is exact.  Proof: Props/C01.v (Coquelicot, every operator variant, any depth).
Correspondence: Model/Expr.v + Model/Dual.v (T := float) vs rust/dual through `rlharness dual` op 1."""
from common import *  # noqa
import dualgen as dg

SCHEMA = ["f", "dual", "vec"]
PROP = "C01"
OPCODE = 1
RUNMOD, RUNFN = "Run.RunDual", "runDual"


def gen_cases(ctx, n_trees, maxdepth):
    rng = ctx.rng
    cases = []
    for k in range(n_trees):
        nv = rng.choice([1, 2, 2, 3, 3, 4, 5])
        env = dg.gen_env(rng, nv)
        names = [n for n, _ in env]
        depth = rng.randint(1, maxdepth)
        e, v = dg.gen_expr(rng, depth, names, dict(env))
        cases.append((env, e))
    # products / quotients / sums of COMPOSITE sub-expressions over the same variables in the same and in
    # different orders (the aligned fast path vs the re-indexing paths of every binary operator)
    x, y, z = ("var", "x"), ("var", "y"), ("var", "z")
    pool = [("mul", x, y), ("mul", y, x), ("add", x, y), ("add", y, x), ("sub", x, y), ("div", x, y), ("div", y, x),
            ("mul", ("exp", x), y), ("mul", y, ("log", x)), ("add", ("mul", x, y), z), ("add", z, ("mul", y, x)),
            ("mul", ("add", x, z), y), ("pow", ("mul", x, y), 2.0), ("mulf", ("add", y, x), 1.5), ("fsub", 2.0, ("mul", x, y)),
            ("mul", x, x), ("add", ("mul", z, x), y), x, ("neg", ("mul", y, x)), ("fdiv", 1.0, ("add", x, y))]
    envp = [("x", 1.3), ("y", 0.7), ("z", 2.1)]
    for t in ("add", "sub", "mul", "div"):
        for a in pool:
            for b in pool:
                if ctx.tier != "thorough" and rng.random() < 0.55:
                    continue
                e = (t, a, b)
                try:
                    dg.eval_py(e, dict(envp))
                    cases.append((envp, e))
                except Exception:
                    pass
    # COINCIDENCES: two different functions of the same variables (same variable storage in the implementation) whose
    # VALUES are bit-for-bit equal at the evaluation point while their derivatives differ — x*x and 3x at 3, x+x and x*x
    # at 2, x^2 y and x y^2 at x = y, e^x - 1 and x at 0 … — under every binary operator, both ways round
    xx, x3, xpx = ("mul", x, x), ("mulf", x, 3.0), ("add", x, x)
    xy = ("mul", x, y)
    fam = [([("x", 3.0)], xx, x3), ([("x", 2.0)], xpx, xx), ([("x", 2.0)], ("pow", x, 2.0), ("mulf", x, 2.0)),
           ([("x", 1.0)], x, xx), ([("x", 1.0)], ("pow", x, 3.0), ("fdiv", 1.0, x)),
           ([("x", 2.0), ("y", 2.0)], ("mul", xy, x), ("mul", xy, y)), ([("x", 1.5), ("y", 1.5)], ("add", xy, x), ("add", xy, y)),
           ([("x", 2.0), ("y", 2.0)], x, y), ([("x", 0.5), ("y", 0.5), ("z", 0.5)], ("mul", ("add", xy, z), x), ("mul", ("add", xy, z), z)),
           ([("x", 4.0), ("y", 0.25)], ("mul", xy, x), ("div", ("mul", xy, xy), y))]
    # the same four names multiplied in two orders that differ only in the INTERIOR (a b c d and a c b d), added / subtracted /
    # multiplied / divided; and a WIDE sum (18 variables) combined with a narrow term on its leading variables in another order
    va, vb, vc, vd = ("var", "a"), ("var", "b"), ("var", "c"), ("var", "d")
    env4 = [("a", 2.0), ("b", 3.0), ("c", 5.0), ("d", 7.0)]
    p1 = ("mul", ("mul", ("mul", va, vb), vc), vd)
    p2 = ("mul", ("mul", ("mul", va, vc), vb), vd)
    p3 = ("mul", ("mul", ("mul", ("mul", va, vb), vc), vd), va)
    fam += [(env4, p1, p2), (env4, ("mulf", p1, 0.5), ("exp", ("mulf", p2, 0.01))), (env4, p3, p2)]
    wide_env = [("x%d" % i, 0.5 + 0.25 * i) for i in range(18)]
    wide = ("var", "x0")
    for i in range(1, 18):
        wide = ("add", wide, ("mulf", ("var", "x%d" % i), float(i + 1)))
    narrow = ("mul", ("mul", ("var", "x1"), ("var", "x1")), ("var", "x0"))
    narrow3 = ("mul", ("mul", ("var", "x2"), ("var", "x0")), ("var", "x1"))
    fam += [(wide_env, wide, narrow), (wide_env, wide, narrow3), (wide_env, ("mul", wide, wide), narrow)]
    for envc, a, b in fam:
        for t in ("add", "sub", "mul", "div"):
            for e in ((t, a, b), (t, b, a)):
                try:
                    dg.eval_py(e, dict(envc))
                    cases.append((envc, e))
                except Exception:
                    pass
    # SUMS OF TERMS whose variable lists are the same set in different orders (x*y then y/x ...), different sets, repeated
    # terms: evaluated with `+` and - the sibling entry point - through `impl Sum` (see run_generic)
    terms = [("mul", x, y), ("div", y, x), ("mul", y, x), ("div", x, y), x, y, ("mul", ("mul", z, y), x), ("mul", ("mul", x, y), z),
             ("mulf", ("mul", y, x), 2.0), ("exp", x), ("add", y, z), ("mul", z, z), ("sub", x, y), ("sub", y, x)]
    for _ in range(120 if ctx.tier == "thorough" else 40):
        ts = [rng.choice(terms) for _ in range(rng.randint(2, 5))]
        e = ts[0]
        for t in ts[1:]:
            e = ("add", e, t)
        cases.append((envp, e))
    # extreme magnitudes: tiny / huge / exactly-zero operands for every operator variant
    ext = dg.extreme_cases(order=(2 if OPCODE == 2 else 1))
    if ctx.tier != "thorough":
        ext = [c for c in ext if rng.random() < 0.5]
    cases += ext
    # every single operator variant on a variable, and on (x op y), explicitly
    unary = ["neg", "negref", "exp", "log", "ncdf", "nicdf", "abs"]
    for t in unary:
        for x0 in (0.37, -0.61, 1.9):
            env = [("x", x0)]
            e = (t, ("var", "x"))
            try:
                dg.eval_py(e, dict(env))
                cases.append((env, e))
            except Exception:
                pass
    for t in ("add", "sub", "mul", "div"):
        for (x0, y0) in ((0.7, -1.3), (-2.1, 0.4)):
            env = [("x", x0), ("y", y0)]
            cases.append((env, (t, ("var", "x"), ("var", "y"))))
            cases.append((env, (t, ("var", "y"), ("mul", ("var", "x"), ("var", "y")))))
            cases.append((env, (t + "f", ("var", "x"), 1.75)))
            cases.append((env, ("f" + t, 1.75, ("var", "y"))))
            cases.append((env, (t, ("var", "x"), ("var", "x"))))
    for p in (-1.0, 2.0, 0.5, 3.0, -2.0, 1.0, 0.0, 1.5, 2.5, -0.5):
        cases.append(([("x", 1.7)], ("pow", ("var", "x"), p)))
        cases.append(([("x", 1.7)], ("powref", ("var", "x"), p)))
        if float(p).is_integer():
            cases.append(([("x", -1.7)], ("pow", ("var", "x"), p)))
    return cases


def encode(env, e):
    return [OPCODE] + dg.enc_env(env) + dg.enc_expr(e)


def describe(env, e):
    return "%s at %s" % (dg.show_expr(e), ", ".join("%s=%r" % (n, v) for n, v in env))


def run_generic(ctx, schema, opcode, prop, n_quick, n_thorough, depth_quick, depth_thorough, extra_check=None):
    global OPCODE
    OPCODE = opcode
    th = ctx.tier == "thorough"
    cases = gen_cases(ctx, n_thorough if th else n_quick * ctx.scale, depth_thorough if th else depth_quick)
    enc = [encode(env, e) for env, e in cases]
    impl = run_harness("dual", ["c " + " ".join(str(x) for x in c) for c in enc])
    model = coq_eval(RUNMOD, RUNFN, enc, ctx.work, shard=max(8, len(enc) // (NCPU * 2) + 1), tag=prop.lower())
    nbad = 0
    for (env, e), c, a, b in zip(cases, enc, impl, model):
        ctx.evaluations += 1
        for k, v in dg.ops_of(e).items():
            ctx.count("operator " + k, v)
        ctx.count("depth %d" % dg.depth_of(e))
        ctx.count("variables %d" % len(env))
        ok, da, db = dg.agree(a, b, schema)
        if da[0] == "ok":
            g = [x[1] for x in da[1][2]]
            if len([x for x in g if x != 0.0]) >= 2:
                ctx.nontriv(tuple(c))
        if ok and extra_check is not None and da[0] == "ok":
            msg = extra_check(env, e, da[1])
            if msg:
                ok = False
                db = ("ok", msg)
        if not ok:
            nbad += 1
            fd = dg.fd_gradient(e, env)
            rep = {"expression": dg.show_expr(e), "env": [[n, v] for n, v in env], "case": c,
                   "implementation": dg.plain(da), "model": dg.plain(db),
                   "finite_difference_gradient_of_plain_evaluation": fd,
                   "harness_cmd": "echo 'c %s' | harness/target/release/rlharness dual" % " ".join(str(x) for x in c)}
            ctx.violation("the implementation's value/gradient for %s differs from the proved model's "
                          "(finite differences of the plain evaluation: %s)" % (describe(env, e), fd), rep)
    # THE ITERATOR FORM of addition: every case whose root is a chain of `+` is evaluated once more with that chain summed
    # through `impl Sum` ([t1, t2, ..].into_iter().sum(), harness op 31 / 32) and compared with the same model output
    sums = [(k, (env, e)) for k, (env, e) in enumerate(cases) if e[0] == "add"]
    impl_s = run_harness("dual", ["c " + " ".join(str(x) for x in [opcode + 30] + enc[k][1:]) for k, _ in sums])
    for (k, (env, e)), a in zip(sums, impl_s):
        ctx.evaluations += 1
        ctx.count("top-level sum through impl Sum")
        ok, da, db = dg.agree(a, model[k], schema)
        if ok and extra_check is not None and da[0] == "ok":
            msg = extra_check(env, e, da[1])
            if msg:
                ok, db = False, ("ok", msg)
        if not ok:
            nbad += 1
            c = [opcode + 30] + enc[k][1:]
            ctx.violation("the implementation's value/gradient for the terms of %s summed through impl Sum differs from the proved "
                          "model's" % describe(env, e),
                          {"expression": dg.show_expr(e), "env": [[n, v] for n, v in env], "case": c, "via": "impl Sum",
                           "implementation": dg.plain(da), "model": dg.plain(db),
                           "harness_cmd": "echo 'c %s' | harness/target/release/rlharness dual" % " ".join(str(x) for x in c)})
    nbad += grid_stage(ctx, schema, opcode)
    for (env, e) in cases[:4]:
        ctx.sample(describe(env, e))
    return nbad


def _rel(p, q, tol):
    if p == q or (p != p and q != q):
        return True
    if p != p or q != q or abs(p) == float("inf") or abs(q) == float("inf"):
        return False
    return abs(p - q) <= tol * max(abs(p), abs(q)) + 1e-300


def grid_verdict(opcode, schema, a, ao, b, strict2=True):
    """(what is wrong | None, decoded implementation, decoded model) for one grid case.  strict2=False: the second
    derivatives are left to the ordinary comparison (a function of a PRODUCT x*y has a mixed second derivative
    f'(s) + s f''(s) whose two terms can cancel - to exactly zero for log - so that entry is rounding noise of the terms)"""
    s1, s2 = ["f", "dual", "vec"], ["f", "dual2", "vec", "mat", "dual", "dual"]
    da, db, do = dg.decode(a, schema), dg.decode(b, schema), dg.decode(ao, s2 if opcode == 1 else s1)
    what = None
    if da[0] != db[0]:
        what = "outcome: implementation %s, model %s" % (da[0], db[0])
    elif da[0] == "ok":
        ia, ib = da[1], db[1]
        comps = [("plain value", ia[0][1], ib[0][1]), ("value", ia[1]["re"][1], ib[1]["re"][1])]
        comps += [("derivative %d" % k, p[1], q[1]) for k, (p, q) in enumerate(zip(ia[2], ib[2]))]
        if opcode == 2 and strict2:
            comps += [("second derivative %d" % k, p[1], q[1]) for k, (p, q) in enumerate(zip(ia[3]["data"], ib[3]["data"]))]
        for nm, p, q in comps:
            if not _rel(p, q, 1e-9):
                what = "%s: implementation %r, model %r (relative difference %.2e)" % (nm, p, q, abs(p - q) / max(abs(p), abs(q), 1e-300))
                break
        if what is None and do[0] == "ok":
            # the implementation alone: plain evaluation = value at both orders; first-order result = first-order part
            io = do[1]
            cross = [("value against the plain float evaluation", ia[1]["re"][1], ia[0][1]),
                     ("value at the other order", ia[1]["re"][1], io[1]["re"][1])]
            cross += [("derivative %d at the other order" % k, p[1], q[1]) for k, (p, q) in enumerate(zip(ia[2], io[2]))]
            for nm, p, q in cross:
                if not _rel(p, q, 1e-12):
                    what = "%s: %r vs %r (relative difference %.2e; implementation alone)" % (nm, p, q, abs(p - q) / max(abs(p), abs(q), 1e-300))
                    break
        elif what is None and do[0] != da[0]:
            what = "first-order and second-order evaluation end differently: %s vs %s" % (da[0], do[0])
    return what, da, db


def _composite(e):
    return isinstance(e, tuple) and any(isinstance(x, tuple) and x[0] == "mul" for x in e[1:])


def grid_stage(ctx, schema, opcode):
    """EVERY FUNCTION ON A GRID OF ARGUMENTS, EACH COMPONENT TO 1e-9 OF ITS OWN SIZE: one function applied to a variable (and to
    a product of two) at arguments from the far tails to the neighbourhood of zero - norm_cdf at -37 .. -6 .. +-0.02 .. 8, its
    inverse at 1e-12 .. 1 - 1e-9, exp and log over 600 orders of magnitude, powers with integral, half-integral and
    nearly-integral exponents.  No cancellation occurs in such an expression, so the value and every derivative of the
    implementation must agree with the proved model to 1e-9 RELATIVE (the model's own float evaluation is within 1e-10 of the
    implementation there, measured), however small the component; and - a test of the implementation alone - the value must
    equal the plain float evaluation and the first-order result must equal the first-order part of the second-order result to
    1e-12 relative (harness ops 1 and 2 on the same case)."""
    x, y = ("var", "x"), ("var", "y")
    cases = []
    grids = {"ncdf": [-37.0, -20.0, -12.0, -8.0, -6.25, -6.0, -5.0, -3.0, -1.0, -0.0999, -0.07, -0.04, -0.02, -1e-3, 1e-3, 0.02, 0.04, 0.07,
                      0.0999, 0.1, 0.5, 1.0, 3.0, 6.25, 8.5],
             "nicdf": [1e-12, 1e-9, 1e-6, 1e-3, 0.01, 0.1, 0.3, 0.4999, 0.5000001, 0.52, 0.7, 0.99, 1 - 1e-6, 1 - 1e-9],
             "exp": [-700.0, -50.0, -3.0, -1e-3, -1e-9, 1e-9, 1e-3, 0.5, 3.0, 50.0, 700.0],
             "log": [1e-300, 1e-9, 1e-3, 0.5, 0.9999999, 1.0000001, 3.0, 1e9, 1e300],
             "abs": [-1e-9, -2.5, 1e-9, 3.5]}
    for t, vals in grids.items():
        for v in vals:
            cases.append(([("x", v)], (t, x)))
            cases.append(([("x", v), ("y", 1.0)], (t, ("mul", x, y))))
    for base in (1e-6, 0.05, 0.999999, 1.000001, 7.5, 20.0, 1e6):
        for pw in (-2.0, -1.0, -0.5, 0.5, 1.0, 1.5, 2.0, 3.0, 2.0000005, 3.0 - 4e-7, -1.0 + 9e-7, 1.0 + 3e-7, 10.0):
            cases.append(([("x", base)], ("pow", x, pw)))
            cases.append(([("x", base)], ("powref", x, pw)))
    for (a, b) in ((3.0, 7.0), (1e-8, 2.5), (1e9, 3.0), (0.1, 0.2), (-2.5, 1e-4)):
        for t in ("add", "sub", "mul", "div"):
            cases.append(([("x", a), ("y", b)], (t, x, y)))
            cases.append(([("x", a), ("y", b)], (t + "f", x, b)))
            cases.append(([("x", a), ("y", b)], ("f" + t, a, y)))
    enc = [[opcode] + dg.enc_env(env) + dg.enc_expr(e) for env, e in cases]
    other = 3 - opcode
    impl = run_harness("dual", ["c " + " ".join(str(z) for z in c) for c in enc])
    impl_o = run_harness("dual", ["c " + " ".join(str(z) for z in [other] + c[1:]) for c in enc])
    model = coq_eval(RUNMOD, RUNFN, enc, ctx.work, shard=max(8, len(enc) // (NCPU * 2) + 1), tag="grid%d" % opcode)
    nbad = 0
    for (env, e), c, a, ao, b in zip(cases, enc, impl, impl_o, model):
        ctx.evaluations += 1
        ctx.count("function grid: " + e[0])
        what, da, db = grid_verdict(opcode, schema, a, ao, b, strict2=not _composite(e))
        if da[0] == "ok":
            ctx.nontriv(("grid", tuple(c)))
        if what:
            nbad += 1
            ctx.violation("%s: %s" % (describe(env, e), what),
                          {"expression": dg.show_expr(e), "env": [[n, v] for n, v in env], "case": c, "grid": True, "composite": _composite(e),
                           "implementation": dg.plain(da), "model": dg.plain(db),
                           "harness_cmd": "echo 'c %s' | harness/target/release/rlharness dual" % " ".join(str(z) for z in c)})
    return nbad


def run(ctx):
    ctx.rule = ("seeded random expression trees over all 23 operator variants (dual∘dual, dual∘float, float∘dual, owned/borrowed "
                "neg and pow, exp, log, norm_cdf, inv_norm_cdf, abs), 1-5 variables, every intermediate kept inside the "
                "differentiable domain with margins; plus every variant applied directly to variables. Observables: plain f64 value, "
                "real(), vars(), dual array, gradient1(all names). Floats compared with relative tolerance 1e-8 (libm/statrs vs the "
                "Gallina series). Non-trivial = gradient with >= 2 non-zero entries; distinct by encoded case.")
    ctx.trusted = [
        "Coq 8.16.1 kernel; axioms: the stdlib real-number axioms (sig_not_dec, sig_forall_dec, functional_extensionality_dep, classic) "
        "and ClassicalEpsilon.constructive_indefinite_description (definition of the inverse normal cdf on R)",
        "theorems are over R (Base/NumR.v); IEEE rounding, libm exp/ln/powf and statrs cdf/inverse_cdf are modelled by the real functions",
        "hand-written model Model/Dual.v + Model/Expr.v tied to rust/dual by this run's correspondence (harness/src/dual.rs, "
        "driver/props/c01.py, Base/NumFloat.v float instance executed by vm_compute)",
    ]
    ctx.assumptions = ["evaluation points inside the differentiable domain (denominators, log/abs arguments away from 0, pow base "
                       "positive or negative with integer exponent, inverse-cdf argument in (0,1))",
                       "finite values of moderate magnitude (no overflow to inf)"]
    if not proof_stage(ctx, ["theories/Run/RunDual.vo"]):
        ctx.violation("a %s proof obligation or the model no longer compiles" % PROP, {"no_failing_input": True,
                      "theorem": "Props/%s.v / Run/RunDual.v" % PROP, "log_tail": getattr(ctx, "build_log", "")[-3000:]})
        return ctx.finish("make theories/Props/%s.vo" % PROP)
    if not harness_stage(ctx):
        return ctx.finish("make theories/Props/%s.vo" % PROP)
    run_generic(ctx, SCHEMA, 1, "C01", 1500, 12000, 6, 10)
    return ctx.finish("make -C coq theories/Props/C01.vo && coqc Assum_C01.v (Print Assumptions)")


def replay(ctx, rp):
    build_harness()
    build_coq(["theories/Run/RunDual.vo"])
    c = rp["case"]
    if rp.get("grid"):
        sch = SCHEMA if c[0] == 1 else ["f", "dual2", "vec", "mat", "dual", "dual"]
        a, ao = run_harness("dual", ["c " + " ".join(str(x) for x in c), "c " + " ".join(str(x) for x in [3 - c[0]] + list(c[1:]))])
        b = coq_eval(RUNMOD, RUNFN, [c], ctx.work)[0]
        what, da, db = grid_verdict(c[0], sch, a, ao, b, strict2=not rp.get("composite", False))
        print("replay %s: %s" % (rp.get("expression"), what or "agrees to 1e-9 relative in every component"))
        ctx.cleanup()
        return 1 if what else 0
    a = run_harness("dual", ["c " + " ".join(str(x) for x in c)])[0]
    cm = [c[0] - 30] + list(c[1:]) if c[0] > 30 else c          # ops 31 / 32: the model has one addition
    b = coq_eval(RUNMOD, RUNFN, [cm], ctx.work)[0]
    schema = SCHEMA if cm[0] == 1 else ["f", "dual2", "vec", "mat", "dual", "dual"]
    ok, da, db = dg.agree(a, b, schema)
    print("replay %s: implementation %s\n model %s" % (rp.get("expression"), dg.plain(da), dg.plain(db)))
    ctx.cleanup()
    return 0 if ok else 1
