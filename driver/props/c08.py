"""C08 — month arithmetic and roll days.  Proof: Props/C08.v.  Correspondence: Model/Dates.v vs
chrono + rust/calendars/dateroll.rs through the harness (`rlharness dates`)."""
import datetime
from common import *  # noqa

OPS = {"civil": 0, "ymd": 1, "addm": 2, "roll": 3, "imm": 4, "eom": 5, "isimm": 6, "iseom": 7, "leap": 8,
       "civilr": 9, "ymdr": 10, "addmr": 11, "monthr": 12}
EPOCH = datetime.date(1970, 1, 1)
D2200 = (datetime.date(2200, 12, 31) - EPOCH).days


def dn(y, m, d):
    return (datetime.date(y, m, d) - EPOCH).days


def line(c):
    return c[0] + " " + " ".join(str(x) for x in c[1:])


VIA = ["Cal", "UnionCal", "NamedCal(all)", "CalType::Cal", "CalType::UnionCal", "CalType::NamedCal"]


def zcase(c):
    """the case as the model sees it: the trailing field of addm / addmr names WHICH implementor of DateRoll the harness asks
    (Cal, UnionCal, NamedCal, the three CalType variants - all always-open calendars); the model has one add_months"""
    if c[0] == "addm":
        return [OPS[c[0]]] + list(c[1:5])
    if c[0] == "addmr":
        return [OPS[c[0]]] + list(c[1:6])
    return [OPS[c[0]]] + list(c[1:])


def gen_cases(ctx):
    rng = ctx.rng
    cases = []
    thorough = ctx.tier == "thorough"
    # (1) chrono vs Dates.v: EVERY day 1970-01-01 .. 2200-12-31 (ranges of one case each)
    step = 2000
    for s in range(0, D2200 + 1, step):
        cases.append(("civilr", s, min(step, D2200 + 1 - s)))
    # every (y, m in 0..13, d in 0..32) validity and day number, every year
    for y in range(1970, 2201):
        cases.append(("ymdr", y))
        cases.append(("monthr", y))
    # add_months over every offset -400..400 (clipped to 1970-2200) from seeded start days, all kinds
    for _ in range(600 if thorough else 60):
        y = rng.randint(1970, 2200)
        m = rng.randint(1, 12)
        dmax = (datetime.date(y + (m == 12), (m % 12) + 1, 1) - datetime.date(y, m, 1)).days
        d = min(rng.choice([1, 28, 29, 30, 31, rng.randint(1, 31)]), dmax)
        lo = max(-400, (1970 - y) * 12 - 11 + 12)
        hi = min(400, (2200 - y) * 12 - 12)
        for rk, rd in [(0, 0), (2, 0), (3, 0), (4, 0), (1, rng.randint(1, 31)), (1, rng.choice([29, 30, 31]))]:
            cases.append(("addmr", dn(y, m, d), lo, hi - lo + 1, rk, rd, rng.randrange(6)))
    # (2) roll-day functions: every month 1970-2200
    years = range(1970, 2201) if thorough else sorted(set([1970, 1999, 2000, 2001, 2024, 2100, 2199, 2200] + rng.sample(range(1970, 2201), 12)))
    for y in years:
        for m in range(1, 13):
            cases.append(("imm", y, m))
            cases.append(("eom", y, m))
            for rk, rd in [(1, 0), (1, 1), (1, 28), (1, 29), (1, 30), (1, 31), (1, 32), (1, 33), (2, 0), (3, 0), (4, 0), (0, 0)]:
                cases.append(("roll", y, m, rk, rd))
        cases.append(("leap", y))
    # EVERY February 1970-2200 (the month whose length depends on the full leap rule, century exceptions included)
    for y in range(1970, 2201):
        if y in years:
            continue
        cases.append(("eom", y, 2))
        for rk, rd in [(1, 28), (1, 29), (1, 30), (1, 31), (2, 0), (0, 0)]:
            cases.append(("roll", y, 2, rk, rd))
        cases.append(("leap", y))
        cases.append(("iseom", dn(y, 2, 28)))
        cases.append(("iseom", dn(y, 3, 1) - 1))
    for y in [1600, 1700, 1800, 1900, 1904, 2300, 2400, -4, 0, 4, 100]:
        cases.append(("leap", y))
    # is_imm / is_eom on days around the 15th..21st and month ends
    nd = 4000 if thorough else 600
    for _ in range(nd):
        y = rng.randint(1970, 2200)
        m = rng.randint(1, 12)
        base = dn(y, m, 1)
        for off in (rng.randint(13, 22), rng.randint(26, 31)):
            n = min(base + off, D2200)
            cases.append(("isimm", n))
            cases.append(("iseom", n))
    # (3) add_months: start days dense at month ends / leap days, offsets of both signs incl. multiples
    #     of 12 and exact year crossings, all roll kinds
    nam = 60000 if thorough else 5000
    for _ in range(nam):
        y = rng.choice([1970, 1972, 1999, 2000, 2023, 2024, 2100, 2199, rng.randint(1971, 2199)])
        m = rng.randint(1, 12)
        dmax = (datetime.date(y + (m == 12), (m % 12) + 1, 1) - datetime.date(y, m, 1)).days
        d = rng.choice([1, 15, 28, 29, 30, 31, rng.randint(1, 31)])
        d = min(d, dmax)
        n = dn(y, m, d)
        kind = rng.random()
        if kind < 0.25:
            k = 12 * rng.randint(-40, 40)
        elif kind < 0.5:
            k = rng.choice([-m, -m + 1, 12 - m, 13 - m, -m - 12, 24 - m + 1, 1 - m])  # lands on Dec/Jan boundaries
        elif kind < 0.6:
            k = rng.choice([0, 1, -1, 11, -11, 12, -12, 13, -13])
        else:
            k = rng.randint(-400, 400)
        # keep the target year inside 1970-2200
        ty = y + (m - 1 + k) // 12
        if ty < 1970 or ty > 2200:
            k = k % 12
        rk = rng.choice([0, 1, 1, 2, 3, 4])
        rd = rng.choice([1, 15, 28, 29, 30, 31, rng.randint(1, 31)]) if rk == 1 else 0
        cases.append(("addm", n, k, rk, rd, rng.randrange(6)))
    if thorough:
        # every start day of 8 sample years x offsets -400..400 x kinds, as range cases
        for y in [1972, 1999, 2000, 2023, 2024, 2100, 2150, 2199]:
            for n in range(dn(y, 1, 1), dn(y, 12, 31) + 1):
                lo = max(-400, (1970 - y) * 12 - 11 + 12)
                hi = min(400, (2200 - y) * 12 - 12)
                for rk, rd in [(0, 0), (2, 0), (3, 0), (4, 0), (1, rng.randint(1, 31)), (1, rng.choice([29, 30, 31]))]:
                    cases.append(("addmr", n, lo, hi - lo + 1, rk, rd, rng.randrange(6)))
    return cases


def run(ctx):
    ctx.rule = ("chrono vs Dates.v on EVERY day 1970-2200 and every (y,m,d) triple of those years (exhaustive); "
                "get_roll/get_imm/get_eom/is_leap_year on months 1970-2200; add_months (Modifier::Act) on seeded "
                "start days dense at month ends with offsets of both signs, multiples of 12 and exact year "
                "crossings, all roll kinds. Non-trivial = add_months case whose day was capped or whose year "
                "changed, or a roll/imm/eom query; distinct by case tuple.")
    ctx.trusted = [
        "Coq 8.16.1 kernel (coqc, full .vo build); vm_compute inside proofs only for the two one-era sweeps (era_ok, era_ok_conv)",
        "axioms: none (every C08 theorem is closed under the global context)",
        "chrono's NaiveDate arithmetic is MODELLED by Model/Dates.v and tied by the exhaustive 1970-2200 correspondence of this run",
        "correspondence: harness/src/dates.rs, driver/props/c08.py, coqc's evaluation and printing of Eval vm_compute",
    ]
    ctx.assumptions = ["dates are midnight datetimes (as produced by calendars::ndt)",
                       "i32 month offsets other than i32::MIN; target year within i32"]
    proved = proof_stage(ctx)
    if not proved:
        ctx.violation("a C08 proof obligation no longer compiles", {"no_failing_input": True,
                      "theorem": "Props/C08.v", "log_tail": getattr(ctx, "build_log", "")[-3000:]})
        return ctx.finish("make theories/Props/C08.vo")
    if not harness_stage(ctx):
        return ctx.finish("make theories/Props/C08.vo")
    cases = gen_cases(ctx)
    impl = run_harness("dates", [line(c) for c in cases])
    heavy = [i for i, c in enumerate(cases) if c[0] in ("civilr", "ymdr", "addmr", "monthr")]
    light = [i for i, c in enumerate(cases) if c[0] not in ("civilr", "ymdr", "addmr", "monthr")]
    model = [None] * len(cases)
    hs = max(1, len(heavy) // (NCPU * 4) + 1)
    for idx, sh_ in ((heavy, min(hs, 60)), (light, 400)):
        res = coq_eval("Run.RunC08", "runC08", [zcase(cases[i]) for i in idx], ctx.work, shard=sh_, tag="c%d" % sh_)
        for i, r in zip(idx, res):
            model[i] = r
    # CHAINS of IMM look-ups in ONE process (quarterly, monthly, every 4 / 5 / 7 / 8 / 11 months, both directions, and random
    # jumps): each answer must be the third Wednesday of ITS month whatever was asked before (harness `immseq`; expected
    # values = the model's get_imm of each month)
    rng = ctx.rng
    chains = []
    for _ in range(400 if ctx.tier == "thorough" else 60):
        y, m = rng.randint(1975, 2190), rng.randint(1, 12)
        step = rng.choice([1, -1, 3, -3, 4, -4, 4, -4, 8, -8, 8, 5, 7, 11, 12, 6])
        seq = []
        for _k in range(14):
            seq.append((y, m))
            if rng.random() < 0.1:
                y, m = rng.randint(1975, 2190), rng.randint(1, 12)
                continue
            t = (y * 12 + (m - 1)) + step
            y, m = t // 12, t % 12 + 1
            if not (1971 <= y <= 2199):
                break
        chains.append(seq)
    months = sorted(set(p for ch in chains for p in ch))
    exp = dict(zip(months, coq_eval("Run.RunC08", "runC08", [zcase(("imm", y, m)) for y, m in months], ctx.work, shard=400, tag="immx")))
    got = run_harness("dates", ["immseq %d %s" % (len(ch), " ".join("%d %d" % p for p in ch)) for ch in chains])
    for ch, g in zip(chains, got):
        ctx.evaluations += len(ch)
        ctx.count("chains of IMM look-ups in one process")
        ctx.nontriv(("immseq", tuple(ch)))
        want = [0] + [exp[p][1] for p in ch] if all(exp[p][:1] == [0] for p in ch) else None
        if want is not None and g != want:
            k = next((i for i, (x, y_) in enumerate(zip(g[1:], want[1:])) if x != y_), 0)
            ctx.violation("get_imm asked for %s in one process: look-up %d (%04d-%02d) answered day %s, the third Wednesday is day %s "
                          "(day numbers since 1970-01-01)" % (ch[:k + 1], k, ch[k][0], ch[k][1], g[1 + k] if len(g) > 1 + k else g, want[1 + k]),
                          {"case": ["immseq", len(ch)] + [v for p in ch for v in p], "chain": [list(p) for p in ch],
                           "implementation": g, "model": want,
                           "harness_cmd": "echo 'immseq %d %s' | harness/target/release/rlharness dates" % (len(ch), " ".join("%d %d" % p for p in ch))})
    for c, a, b in zip(cases, impl, model):
        op = c[0]
        ctx.count(op)
        if op in ("addm", "addmr"):
            ctx.count("add_months asked of " + VIA[c[-1]])
        if op == "civilr":
            ctx.evaluations += c[2]
        elif op == "ymdr":
            ctx.evaluations += 14 * 33
        elif op == "addmr":
            ctx.evaluations += c[3]
        elif op == "monthr":
            ctx.evaluations += 12 * 14 + 1
        else:
            ctx.evaluations += 1
        if op in ("roll", "imm", "eom", "isimm", "iseom", "addmr", "monthr"):
            ctx.nontriv(c)
        if op == "addm" and a[:1] == [0]:
            # capped or year changed
            import datetime as _d
            s = EPOCH + _d.timedelta(days=c[1])
            r = EPOCH + _d.timedelta(days=a[1])
            if r.year != s.year or (c[3] in (0, 1) and r.day != (s.day if c[3] == 0 else c[4])):
                ctx.nontriv(c)
        if a != b:
            detail = {"case": list(c), "implementation": a, "model": b, "harness_cmd": "echo '%s' | harness/target/release/rlharness dates" % line(c)}
            ndrill = getattr(ctx, "_ndrill", 0)
            if len(ctx.violations) >= 25:
                continue
            if op in ("civilr", "addmr", "monthr") and ndrill < 4:
                ctx._ndrill = ndrill + 1
                # range case (hash mismatch): drill down to the single inputs that differ
                if op == "civilr":
                    singles = [("civil", n) for n in range(c[1], c[1] + c[2])]
                elif op == "monthr":
                    singles = [("leap", c[1])]
                    for m in range(1, 13):
                        singles += [("imm", c[1], m), ("eom", c[1], m)]
                        singles += [("roll", c[1], m, rk, rd) for rk, rd in [(1, 1), (1, 27), (1, 28), (1, 29), (1, 30), (1, 31), (1, 32), (1, 33), (2, 0), (3, 0), (4, 0), (0, 0)]]
                else:
                    singles = [("addm", c[1], k, c[4], c[5], c[6]) for k in range(c[2], c[2] + c[3])]
                ia = run_harness("dates", [line(x) for x in singles])
                ib = coq_eval("Run.RunC08", "runC08", [zcase(x) for x in singles], ctx.work, tag="drill")
                diffs = [(x, p, q) for x, p, q in zip(singles, ia, ib) if p != q]
                if diffs:
                    x, p, q = diffs[0]
                    detail = {"case": list(x), "implementation": p, "model": q, "n_in_range": len(diffs),
                              "harness_cmd": "echo '%s' | harness/target/release/rlharness dates" % line(x)}
                    c = x
            ctx.violation("dateroll.rs/chrono and the proved model disagree on %s (outcome encoding: 0 v=Ok, 1=Err, 2=Panic)" % (line(c),), detail)
    for c, a in list(zip(cases, impl))[-5:]:
        ctx.sample({"case": line(c), "result": a})
    ctx.exhaustive = False
    return ctx.finish("make -C coq theories/Props/C08.vo && coqc Assum_C08.v (Print Assumptions)")


def replay(ctx, rp):
    if rp.get("chain"):
        build_harness()
        build_coq(coq_targets_for("C08"))
        ch = [tuple(p) for p in rp["chain"]]
        g = run_harness("dates", ["immseq %d %s" % (len(ch), " ".join("%d %d" % p for p in ch))])[0]
        exp = coq_eval("Run.RunC08", "runC08", [zcase(("imm", y, m)) for y, m in ch], ctx.work)
        want = [0] + [e[1] for e in exp]
        print("replay IMM chain %s: implementation %s, model %s" % (ch, g, want))
        ctx.cleanup()
        return 0 if g == want else 1
    ok, _ = build_harness()
    c = rp["case"]
    a = run_harness("dates", [line(c)])
    ok2, _ = build_coq(coq_targets_for("C08"))
    b = coq_eval("Run.RunC08", "runC08", [zcase(c)], ctx.work)
    print("case", c, "implementation", a[0][:40], "model", b[0][:40])
    ctx.cleanup()
    return 0 if a == b else 1
