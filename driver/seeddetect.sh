#!/bin/bash
# Runs the registered quick check(s) against /repo WITH a seeded change applied, then reverts it:
#   driver/seeddetect.sh <seed-name> [<Cxx> ...]      (default: the property named in meta.json)
# Evidence and replays of these runs go to a scratch directory (the committed evidence is not touched);
# the verdicts are written to seeded/<seed-name>/detection.json.
set -u
NAME="$1"; shift
SD=${SEEDROOT:-/verif/seeded}/$NAME
[ -f "$SD/patch.diff" ] || { echo "no such seed $NAME"; exit 2; }
PROPS="$*"
[ -n "$PROPS" ] || PROPS=$(python3 -c "import json;print(json.load(open('$SD/meta.json'))['property'])")
if [ -n "$(git -C /repo status --porcelain --untracked-files=no)" ]; then echo "/repo is not clean"; exit 2; fi
SCR=/tmp/seeddetect/$NAME; rm -rf "$SCR"; mkdir -p "$SCR/evidence" "$SCR/replays"
git -C /repo apply "$SD/patch.diff" || { echo "patch does not apply"; exit 2; }
trap 'git -C /repo checkout -- . ; ' EXIT
RES="{}"
for P in $PROPS; do
  T0=$(date +%s)
  ( cd ${VROOT:-/verif} && VERIF_EVID_DIR="$SCR/evidence" VERIF_REPLAY_DIR="$SCR/replays" ./check "$P" --tier "${TIER:-quick}" > "$SCR/$P.log" 2>&1 ); RC=$?
  T1=$(date +%s)
  VL=$(grep -m1 "^VIOLATION" "$SCR/$P.log" || true)
  WHAT=""
  RP=$(echo "$VL" | sed -n 's/.*replay=\([^ ]*\).*/\1/p')
  [ -n "$RP" ] && [ -f "$RP" ] && WHAT=$(python3 -c "import json,sys;print(json.load(open('$RP')).get('what','')[:600])")
  RES=$(python3 - "$RES" "$P" "$RC" "$VL" "$WHAT" "$((T1-T0))" <<'PY'
import json,sys
r=json.loads(sys.argv[1]); p,rc,vl,what,w=sys.argv[2:7]
r[p]={"exit":int(rc),"violation_line":vl.replace("/tmp/seeddetect/","<scratch>/"),"what":what,"wall_s":int(w),
      "detected":int(rc)==1 and vl.startswith("VIOLATION"),"with_failing_input":"no-failing-input-found" not in vl}
print(json.dumps(r))
PY
)
  tail -n 2 "$SCR/$P.log"
done
git -C /repo checkout -- .
trap - EXIT
python3 - "$SD" "$RES" <<'PY'
import json,sys,subprocess
sd,res=sys.argv[1:3]
d={"tier":"quick","verif_commit":subprocess.run("git -C /verif rev-parse --short HEAD",shell=True,capture_output=True,text=True).stdout.strip(),
   "repo_commit":subprocess.run("git -C /repo rev-parse --short HEAD",shell=True,capture_output=True,text=True).stdout.strip(),
   "checks":json.loads(res)}
json.dump(d,open(sd+"/detection.json","w"),indent=1)
print(json.dumps({k:v["detected"] for k,v in d["checks"].items()}))
PY
# leave the harness built against the clean tree again
( cd ${VROOT:-/verif} && python3 -c "import sys;sys.path.insert(0,'driver');import common;print(common.build_harness()[0])" )
