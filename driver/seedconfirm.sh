#!/bin/bash
# Confirms a seeded change in its scratch worktree: (1) with the change the pinned lib suite passes and the
# demonstration fails; (2) without it the demonstration passes.  Writes /verif/seeded/<name>/{patch.diff,seed_demo.rs,meta.json}
#   driver/seedconfirm.sh <worktree> <name> <property-id>
set -u
WT="$1"; NAME="$2"; PROP="$3"
OUT=/verif/seeded/$NAME
mkdir -p "$OUT"
cd "$WT" || exit 2
export CARGO_NET_OFFLINE=true
git diff -- rust > "$OUT/patch.diff"
cp tests/seed_demo.rs "$OUT/seed_demo.rs"
[ -f meta.txt ] && cp meta.txt "$OUT/meta.txt"
SUITE=$(cargo test --offline --lib 2>&1 | grep "^test result:" | head -1)
DEMO_WITH=$(cargo test --offline --test seed_demo 2>&1 | grep "^test result:" | head -1)
# (git stash is shared between the worktrees of one repository: reverse-apply the saved patch instead)
git apply -R "$OUT/patch.diff"
DEMO_WITHOUT=$(cargo test --offline --test seed_demo 2>&1 | grep "^test result:" | head -1)
git apply "$OUT/patch.diff"
python3 - "$OUT" "$PROP" "$SUITE" "$DEMO_WITH" "$DEMO_WITHOUT" <<'PY'
import json, sys, os
out, prop, suite, dw, dwo = sys.argv[1:6]
meta = {"property": prop,
        "needs_to_manifest": open(os.path.join(out, "meta.txt")).read() if os.path.exists(os.path.join(out, "meta.txt")) else "",
        "confirmed": {"pinned_suite_with_change": suite, "demo_with_change": dw, "demo_without_change": dwo,
                      "commands": ["cargo test --offline --lib", "cargo test --offline --test seed_demo",
                                   "git apply -R patch.diff; cargo test --offline --test seed_demo; git apply patch.diff"]},
        "ok": ("229 passed; 0 failed" in suite) and ("FAILED" in dw or "failed" in dw and " 0 failed" not in dw) and (" 0 failed" in dwo and "ok" in dwo)}
json.dump(meta, open(os.path.join(out, "meta.json"), "w"), indent=1)
print(out, meta["ok"], "|", suite, "|", dw, "|", dwo)
PY
