#!/usr/bin/env python3
"""Differential self-test of coq/theories/Base/NumFloat.v (the `Num float` instance).

Every Gallina float function is evaluated with vm_compute on seeded points and compared with the
Python math module (glibc libm, IEEE binary64 = Rust f64):
  exp ln pow fmod trunc signum  -> math.exp/log/pow/fmod/trunc
  ncdf                          -> 0.5*math.erfc(-x/sqrt(2))
  nicdf                         -> statistics.NormalDist().inv_cdf refined by a Newton step on math.erfc
  ofZ, + - * / sqrt, bits       -> exact
Prints the max error per function; exit 0 iff everything is within tolerance.
stdlib only.  usage: numfloat_selftest.py [--n 3000] [--seed 1] [--keep]"""
import argparse, math, os, random, re, shutil, statistics, struct, subprocess, sys, time
from concurrent.futures import ThreadPoolExecutor

ROOT = os.path.dirname(os.path.dirname(os.path.abspath(__file__)))
THEORIES = os.path.join(ROOT, "coq", "theories")
BASE = os.path.join(THEORIES, "Base")
WORK = os.path.join(ROOT, ".work", "numfloat_selftest")
DBL_MIN = 2.2250738585072014e-308
DBL_MAX = 1.7976931348623157e308
NANBITS = 0x7ff8000000000000
INF = math.inf
NAN = math.nan


def bits(x):
    if x != x:
        return NANBITS
    return struct.unpack(">Q", struct.pack(">d", x))[0]


def fromb(b):
    return struct.unpack(">d", struct.pack(">Q", b))[0]


# ---------------------------------------------------------------------------------------------
# running Coq

def ensure_built():
    for name in ("Num", "NumFloat"):
        v = os.path.join(BASE, name + ".v")
        vo = os.path.join(BASE, name + ".vo")
        if not os.path.exists(vo) or os.path.getmtime(vo) < os.path.getmtime(v):
            p = subprocess.run("timeout 600 coqc -noglob -Q %s RL %s.v" % (THEORIES, name), cwd=BASE,
                               shell=True, capture_output=True, text=True)
            if p.returncode != 0:
                sys.exit("coqc failed on %s.v:\n%s%s" % (name, p.stdout[-3000:], p.stderr[-3000:]))


def enc_z(z):
    assert 0 <= z < (1 << 94)
    return "%d;%d" % (z >> 32, z & 0xffffffff)


def coq_map(tag, fn, cases, arity):
    """cases: list of non-negative ints (arity 1) or int tuples; fn: Gallina term Z -> Z (arity 1),
    Z -> Z -> Z (arity 2), ...  Integers travel as pairs of primitive 63-bit ints (hi, low 32 bits):
    parsing / printing a 64-bit `Z` literal costs > 1 ms in Coq 8.16, a primitive int nothing.
    Returns (list of Z results, seconds spent in the vm_compute evaluation itself)."""
    f = os.path.join(WORK, tag + ".v")
    with open(f, "w") as fh:
        fh.write("From Coq Require Import ZArith List Floats Uint63.\nFrom RL Require Import Base.Num Base.NumFloat.\n")
        fh.write("Import ListNotations.\nOpen Scope Z_scope.\n")
        fh.write("Fixpoint dec (l : list int) : list Z := match l with h :: l :: r => (Z.shiftl (Uint63.to_Z h) 32 + Uint63.to_Z l) :: dec r | _ => [] end.\n")
        fh.write("Definition enc (z : Z) : int * int := (Uint63.of_Z (Z.shiftr z 32), Uint63.of_Z (Z.land z 4294967295)).\n")
        rows = ["[" + enc_z(c) + "]" for c in cases] if arity == 1 else \
               ["[" + ";".join(enc_z(x) for x in c) + "]" for c in cases]
        nch = (len(rows) + 3999) // 4000          # one huge list literal overflows Coq's parser stack
        for i in range(nch):
            fh.write("Definition cases%d : list (list int) := [\n%s]%%uint63.\n" % (i, ";\n".join(rows[4000 * i:4000 * (i + 1)])))
        vs = ["a%d" % i for i in range(arity)]
        fh.write("Definition run (c : list int) : int * int := match dec c with [%s] => enc (%s %s) | _ => enc 0 end.\n"
                 % ("; ".join(vs), fn, " ".join(vs)))
        fh.write("Set Printing Width 200.\nSet Printing Depth 100000000.\n")
        for i in range(nch):
            fh.write("Definition warm%d := Eval vm_compute in (length cases%d).\n" % (i, i))
            fh.write("Time Definition res%d := Eval vm_compute in (map run cases%d).\n" % (i, i))
            fh.write("Eval vm_compute in res%d.\n" % i)
    p = subprocess.run("timeout 1200 coqc -noglob -Q %s RL %s" % (THEORIES, f), cwd=WORK, shell=True,
                       capture_output=True, text=True)
    if p.returncode != 0:
        sys.exit("coqc failed on %s:\n%s%s" % (f, p.stdout[-3000:], p.stderr[-3000:]))
    tm = re.findall(r"Finished transaction in ([\d.]+) secs", p.stdout)
    dt = sum(float(t) for t in tm)
    ms = re.findall(r"=\s*(\[.*?)\n\s*:\s*list", p.stdout, re.S)
    if len(ms) != nch:
        sys.exit("cannot parse coq output for %s: %s" % (tag, p.stdout[:1000]))
    nums = [int(t) for m in ms for t in re.findall(r"\d+", m.replace("%uint63", ""))]
    if len(nums) != 2 * len(cases):
        sys.exit("%s: %d numbers for %d cases" % (tag, len(nums), len(cases)))
    out = [(nums[2 * i] << 32) + nums[2 * i + 1] for i in range(len(cases))]
    return out, dt


def un(f):
    return "(fun b => bits_of_float (%s (float_of_bits b)))" % f


def bi(f):
    return "(fun a b => bits_of_float (%s (float_of_bits a) (float_of_bits b)))" % f


# ---------------------------------------------------------------------------------------------
# point generators

SPECIALS = [0.0, -0.0, 1.0, -1.0, 2.0, -2.0, 0.5, -0.5, 3.0, -3.0, 1.5, -2.5, INF, -INF, NAN, 5e-324, -5e-324,
            2.225073858507201e-308, DBL_MIN, DBL_MAX, -DBL_MAX, 1e300, 1e-300, -1e300, 9007199254740992.0,
            9007199254740993.0 * 2, 4503599627370496.0, 4503599627370495.5, -4503599627370495.5,
            0.1, 0.9701548970340049, math.pi, 1e-5, 64.0, -64.0, 65.0, 1e22, 709.782712893384,
            709.7827128933841, -745.1332191019411, -745.1332191019412, -708.3964185322641, 710.0, -746.0]


def logu(rnd, lo, hi):
    return math.exp(rnd.uniform(math.log(lo), math.log(hi)))


def anyfloat(rnd):
    """log-uniform magnitude over the whole binary64 range, random sign"""
    while True:
        x = fromb(rnd.getrandbits(64))
        if x == x and not math.isinf(x):
            return x


def gen_exp(rnd, n):
    pts = list(SPECIALS)
    while len(pts) < n:
        k = len(pts) % 4
        if k == 0:
            pts.append(rnd.uniform(-745.2, 709.8))
        elif k == 1:
            pts.append(rnd.choice([-1, 1]) * logu(rnd, 1e-20, 50))
        elif k == 2:
            pts.append(rnd.uniform(-40, 40))
        else:
            pts.append(anyfloat(rnd))
    return pts


def gen_ln(rnd, n):
    pts = list(SPECIALS)
    while len(pts) < n:
        k = len(pts) % 4
        if k == 0:
            pts.append(abs(anyfloat(rnd)))
        elif k == 1:
            pts.append(1.0 + rnd.choice([-1, 1]) * logu(rnd, 1e-16, 0.4))
        elif k == 2:
            pts.append(logu(rnd, 1e-6, 1e6))
        else:
            pts.append(anyfloat(rnd))
    return pts


def gen_pow(rnd, n):
    pts = [(x, p) for x in SPECIALS for p in SPECIALS]
    m = len(pts) + n
    while len(pts) < m:
        k = len(pts) % 8
        if k in (0, 1):      # x over the whole positive range, p ln x uniform in [-700,700]
            x = logu(rnd, 1e-300, 1e300)
            lx = math.log(x)
            if lx == 0.0:
                continue
            pts.append((x, rnd.uniform(-700, 700) / lx))
        elif k == 2:         # x near 1, large exponent
            x = 1.0 + rnd.choice([-1, 1]) * logu(rnd, 1e-12, 0.3)
            pts.append((x, rnd.uniform(-700, 700) / math.log(x)))
        elif k == 3:         # integer exponents, both signs of x
            pts.append((rnd.choice([-1, 1]) * logu(rnd, 1e-4, 1e4), float(rnd.randint(-64, 64))))
        elif k == 4:         # financial range: discount factors, vol scaling
            pts.append((logu(rnd, 0.01, 100), rnd.uniform(-30, 30)))
        elif k == 5:         # the exponents that must be ~ 1 ulp
            pts.append((logu(rnd, 1e-100, 1e100), rnd.choice([-1.0, 2.0, -2.0, 0.5, 1.0, 3.0, -0.5])))
        elif k == 6:         # overflow / underflow border
            x = logu(rnd, 1e-300, 1e300)
            lx = math.log(x)
            if lx == 0.0:
                continue
            pts.append((x, rnd.choice([-1, 1]) * rnd.uniform(690, 760) / lx))
        else:                # negative base, non-integer or integer exponent; wild inputs
            if rnd.random() < 0.5:
                pts.append((-logu(rnd, 1e-3, 1e3), rnd.uniform(-5, 5)))
            else:
                pts.append((anyfloat(rnd), rnd.choice([-1, 1]) * logu(rnd, 1e-3, 1e3)))
    return pts


def gen_trunc(rnd, n):
    pts = list(SPECIALS)
    while len(pts) < n:
        k = len(pts) % 4
        if k == 0:
            pts.append(rnd.choice([-1, 1]) * logu(rnd, 1e-3, 1e20))
        elif k == 1:
            pts.append(rnd.choice([-1, 1]) * (rnd.randint(0, 2 ** 53) / rnd.choice([1, 2, 4, 1024])))
        elif k == 2:
            pts.append(rnd.choice([-1, 1]) * (rnd.randint(0, 10 ** 6) + rnd.choice([0.0, 0.5, 0.25, 0.999999999])))
        else:
            pts.append(anyfloat(rnd))
    return pts


def gen_rem(rnd, n):
    pts = [(x, y) for x in SPECIALS for y in SPECIALS]
    m = len(pts) + n
    while len(pts) < m:
        k = len(pts) % 6
        if k == 0:
            pts.append((anyfloat(rnd), anyfloat(rnd)))
        elif k == 1:
            y = rnd.choice([-1, 1]) * logu(rnd, 1e-5, 1e5)
            pts.append((y * rnd.uniform(-1000, 1000), y))
        elif k == 2:         # date-like arithmetic: integers and simple fractions
            pts.append((float(rnd.randint(-10 ** 7, 10 ** 7)) / rnd.choice([1, 2, 4, 10]),
                        float(rnd.randint(1, 400)) / rnd.choice([1, 2, 4, 10])))
        elif k == 3:         # huge exponent gap
            pts.append((rnd.choice([-1, 1]) * logu(rnd, 1e100, 1e308), rnd.choice([-1, 1]) * logu(rnd, 1e-320, 1e-100)))
        elif k == 4:         # exact multiples
            y = float(rnd.randint(1, 10 ** 6))
            pts.append((rnd.choice([-1, 1]) * y * rnd.randint(0, 10 ** 6), y))
        else:
            x = anyfloat(rnd)
            pts.append((x, x * rnd.choice([1.0, -1.0, 0.5, 2.0, 0.75, 1.0000000000000002])))
    return pts


def gen_ncdf(rnd, n):
    pts = list(SPECIALS)
    while len(pts) < n:
        k = len(pts) % 4
        if k in (0, 1):
            pts.append(rnd.uniform(-8, 8))
        elif k == 2:
            pts.append(rnd.choice([-1, 1]) * logu(rnd, 1e-18, 8))
        else:
            pts.append(rnd.uniform(-38, 38))
    return pts


def gen_nicdf(rnd, n):
    pts = list(SPECIALS) + [1e-12, 1 - 1e-12, 0.075, 0.925, 0.07499999999999999, 0.9250000000000002,
                            1 - 2.0 ** -53, 2.0 ** -1074, 0.5 - 2.0 ** -54, 0.5 + 2.0 ** -53, 0.25, 0.75]
    while len(pts) < n:
        k = len(pts) % 5
        if k == 0:
            pts.append(rnd.random())
        elif k == 1:
            pts.append(logu(rnd, 1e-12, 0.5))
        elif k == 2:
            pts.append(1.0 - logu(rnd, 1e-12, 0.5))
        elif k == 3:
            pts.append(0.5 + rnd.choice([-1, 1]) * logu(rnd, 1e-17, 0.5))
        else:
            pts.append(logu(rnd, 1e-320, 1e-12) if rnd.random() < 0.7 else 1.0 - logu(rnd, 1.2e-16, 1e-12))
    return pts


# ---------------------------------------------------------------------------------------------
# references

def ref_exp(x):
    try:
        return math.exp(x)
    except OverflowError:
        return INF


def ref_ln(x):
    if x != x:
        return NAN
    if x < 0:
        return NAN
    if x == 0:
        return -INF
    return math.log(x)


def is_odd_int(p):
    return (not math.isinf(p)) and p == math.floor(p) and abs(p) < 2.0 ** 53 and int(p) % 2 == 1


def ref_pow(x, p):
    try:
        return math.pow(x, p)
    except OverflowError:
        return -INF if (x < 0 and is_odd_int(p)) else INF
    except ValueError:
        if x == 0:           # pole: pow(+-0, negative)
            return -INF if (math.copysign(1.0, x) < 0 and is_odd_int(p)) else INF
        return NAN           # negative base, non-integer exponent


def ref_trunc(x):
    if x != x or math.isinf(x):
        return x
    return math.copysign(float(math.trunc(x)), x)


def ref_rem(x, y):
    try:
        return math.fmod(x, y)
    except ValueError:
        return NAN


def ref_signum(x):
    return x if x != x else math.copysign(1.0, x)


SQRT2 = math.sqrt(2.0)


def ref_ncdf(x):
    return 0.5 * math.erfc(-x / SQRT2)


def ref_nicdf(p, refine=True):
    if p != p or p < 0 or p > 1:
        return NAN
    if p == 0:
        return -INF
    if p == 1:
        return INF
    x = statistics.NormalDist().inv_cdf(p)
    if not refine:
        return x
    q = p - 0.5
    phi = math.exp(-0.5 * x * x) / math.sqrt(2 * math.pi)
    if phi == 0.0:
        return x
    if abs(q) <= 0.3:
        e = 0.5 * math.erf(x / SQRT2) - q
    elif q < 0:
        e = 0.5 * math.erfc(-x / SQRT2) - p
    else:
        e = -(0.5 * math.erfc(x / SQRT2) - (1.0 - p))
    return x - e / phi


def ref_ofz(z):
    try:
        return float(z)
    except OverflowError:
        return INF if z > 0 else -INF


# ---------------------------------------------------------------------------------------------
# comparison

class Stat:
    def __init__(self, name, tol_rel, tol_abs=None):
        self.name, self.tol_rel, self.tol_abs = name, tol_rel, tol_abs
        self.n = 0
        self.max_rel = 0.0
        self.max_abs = 0.0
        self.worst = None
        self.bad = []
        self.secs = 0.0
        self.inexact = 0

    def fail(self, inp, got, ref, why):
        if len(self.bad) < 8:
            self.bad.append("%s: input %r got %r want %r" % (why, inp, got, ref))
        elif len(self.bad) == 8:
            self.bad.append("...")

    def cmp(self, inp, gotbits, ref, exact=False, in_tol=True):
        """in_tol=False: the point is outside the stated accuracy range: only class / sign / 1e-9"""
        self.n += 1
        got = fromb(gotbits)
        if ref != ref:
            if got == got:
                self.fail(inp, got, ref, "expected NaN")
            return
        if got != got:
            self.fail(inp, got, ref, "unexpected NaN")
            return
        if exact:
            if gotbits != bits(ref):
                self.fail(inp, got, ref, "not bit-exact")
            return
        if math.isinf(ref) or math.isinf(got):
            if got != ref:
                # one-ulp disagreement exactly at the overflow threshold is tolerated
                fin = got if math.isinf(ref) else ref
                if not (abs(fin) >= DBL_MAX * (1 - 1e-13) and (fin > 0) == ((ref if math.isinf(ref) else got) > 0)):
                    self.fail(inp, got, ref, "infinity mismatch")
            return
        if ref == 0.0 and got == 0.0:
            if gotbits != bits(ref):
                self.fail(inp, got, ref, "sign of zero")
            return
        if gotbits != bits(ref):
            self.inexact += 1
        a = abs(got - ref)
        r = a / max(abs(ref), DBL_MIN)
        if got != 0.0 and ref != 0.0 and (got > 0) != (ref > 0):
            self.fail(inp, got, ref, "sign")
        if in_tol:
            if r > self.max_rel:
                self.max_rel, self.worst = r, inp
            self.max_abs = max(self.max_abs, a)
            if r > self.tol_rel or (self.tol_abs is not None and a > self.tol_abs):
                self.fail(inp, got, ref, "error rel %.3g abs %.3g" % (r, a))
        elif r > 1e-9:
            self.fail(inp, got, ref, "error (outside stated range) rel %.3g" % r)

    def report(self):
        ok = not self.bad
        per = 1000.0 * self.secs / max(self.n, 1)
        print("%-12s n=%-6d max_rel=%-10.3g max_abs=%-10.3g differs_from_ref=%-6d tol_rel=%-8.1g %6.2fs (%.3f ms/eval) %s"
              % (self.name, self.n, self.max_rel, self.max_abs, self.inexact, self.tol_rel, self.secs, per,
                 "ok" if ok else "FAIL"))
        if self.worst is not None and self.max_rel > 0:
            print("             worst input: %r" % (self.worst,))
        for b in self.bad:
            print("   ! " + b)
        return ok


# ---------------------------------------------------------------------------------------------

def main():
    ap = argparse.ArgumentParser()
    ap.add_argument("--n", type=int, default=3000)
    ap.add_argument("--seed", type=int, default=1)
    ap.add_argument("--keep", action="store_true")
    a = ap.parse_args()
    n = max(a.n, 100)
    ensure_built()
    shutil.rmtree(WORK, ignore_errors=True)
    os.makedirs(WORK)

    def R(i):
        return random.Random(a.seed * 1000 + i)

    jobs = []          # (Stat, tag, fn, cases(bit patterns), arity, checker)

    # --- bits round trip on arbitrary patterns
    rb = R(0)
    pats = [rb.getrandbits(64) for _ in range(n)] + [bits(x) for x in SPECIALS] + \
           [(rb.getrandbits(1) << 63) | rb.getrandbits(rb.randint(1, 52)) for _ in range(300)] + \
           [(rb.getrandbits(1) << 63) | (rb.choice([1, 2, 2046, 2047]) << 52) | rb.getrandbits(52) for _ in range(100)] + \
           [0x7ff0000000000001, 0xfff8000000000000, 0x7fffffffffffffff, 0x000fffffffffffff, 0x8000000000000001]
    st = Stat("bits", 0.0)

    def chk_bits(st, cases, out):
        for b, o in zip(cases, out):
            st.n += 1
            x = fromb(b)
            want = NANBITS if x != x else b
            if o != want:
                st.fail(hex(b), hex(o), hex(want), "round trip")
    jobs.append((st, "bits", "(fun b => bits_of_float (float_of_bits b))", pats, 1, chk_bits))

    # --- ofZ  (case = sign, magnitude < 2^70, left shift)
    rz = R(1)
    zs = [(0, 0, 0), (0, 1, 0), (1, 1, 0), (0, 2 ** 53, 0), (0, 2 ** 53 + 1, 0), (1, 2 ** 53 + 1, 0), (0, 2 ** 53 + 3, 0),
          (0, 2 ** 62 - 1, 0), (0, 2 ** 62, 0), (0, 2 ** 62 + 1, 0), (0, 2 ** 63, 0), (0, 2 ** 64 - 1, 0), (0, 1, 1023),
          (0, 2 ** 54 - 1, 970), (0, 2 ** 55 - 3, 969), (0, 2 ** 55 - 1, 969), (0, 1, 1024), (1, 1, 1030),
          (0, 730120, 0), (0, 20260101, 0), (0, 2 ** 54 + 2, 0), (0, 2 ** 54 + 6, 0), (0, 2 ** 65 + 2 ** 12, 0),
          (0, 2 ** 65 + 2 ** 12 + 1, 3), (0, 2 ** 65 + 3 * 2 ** 12, 0)]
    while len(zs) < n:
        k = len(zs) % 3
        if k == 0:
            zs.append((rz.randint(0, 1), rz.getrandbits(rz.randint(1, 53)), 0))
        elif k == 1:
            zs.append((rz.randint(0, 1), rz.getrandbits(rz.randint(54, 70)), 0))
        else:
            zs.append((rz.randint(0, 1), rz.getrandbits(rz.randint(1, 70)), rz.randint(0, 980)))
    st = Stat("ofZ", 0.0)

    def chk_ofz(st, cases, out):
        for (sg, m, k), o in zip(cases, out):
            z = (-1 if sg else 1) * (m << k)
            st.cmp(z, o, ref_ofz(z), exact=True)
    jobs.append((st, "ofz", "(fun s m k => bits_of_float (f_ofZ ((if s =? 1 then -1 else 1) * Z.shiftl m k)))",
                 zs, 3, chk_ofz))

    # --- hardware arithmetic (bit exact)
    ra = R(2)
    prs = []
    while len(prs) < n:
        if len(prs) % 2:
            prs.append((anyfloat(ra), anyfloat(ra)))
        else:
            prs.append((ra.choice([-1, 1]) * logu(ra, 1e-6, 1e6), ra.choice([-1, 1]) * logu(ra, 1e-6, 1e6)))
    prs += [(x, y) for x in SPECIALS[:20] for y in SPECIALS[:20]]
    for nm, cf, pf in [("add", "nadd", lambda x, y: x + y), ("sub", "nsub", lambda x, y: x - y),
                       ("mul", "nmul", lambda x, y: x * y),
                       ("div", "ndiv", lambda x, y: x / y if y != 0 else (NAN if (x == 0 or x != x) else math.copysign(INF, x) * math.copysign(1.0, y)))]:
        st = Stat(nm, 0.0)

        def chk(st, cases, out, pf=pf):
            for (bx, by), o in zip(cases, out):
                st.cmp((fromb(bx), fromb(by)), o, pf(fromb(bx), fromb(by)), exact=True)
        jobs.append((st, nm, bi("(@%s float NumFloat)" % cf), [(bits(x), bits(y)) for x, y in prs], 2, chk))
    st = Stat("sqrt", 0.0)

    def chk_sqrt(st, cases, out):
        for b, o in zip(cases, out):
            x = fromb(b)
            st.cmp(x, o, NAN if (x != x or x < 0) else math.sqrt(x), exact=True)
    jobs.append((st, "sqrt", un("(@nsqrt float NumFloat)"), [bits(x) for x, _ in prs], 1, chk_sqrt))

    # --- elementary functions
    def unary(name, coqf, gen, ref, tol_rel, tol_abs=None, exact=False, seed=0, in_tol=None):
        pts = gen(R(seed), n)
        st = Stat(name, tol_rel, tol_abs)

        def chk(st, cases, out):
            for b, o in zip(cases, out):
                x = fromb(b)
                st.cmp(x, o, ref(x), exact=exact, in_tol=(in_tol(x) if in_tol else True))
        jobs.append((st, name, un(coqf), [bits(x) for x in pts], 1, chk))

    def binary(name, coqf, gen, ref, tol_rel, exact=False, seed=0):
        pts = gen(R(seed), n)
        st = Stat(name, tol_rel)

        def chk(st, cases, out):
            for (bx, by), o in zip(cases, out):
                x, y = fromb(bx), fromb(by)
                st.cmp((x, y), o, ref(x, y), exact=exact)
        jobs.append((st, name, bi(coqf), [(bits(x), bits(y)) for x, y in pts], 2, chk))

    unary("exp", "(@nexp float NumFloat)", gen_exp, ref_exp, 2e-14, seed=10)
    unary("ln", "(@nln float NumFloat)", gen_ln, ref_ln, 2e-14, seed=11)
    binary("pow", "(@npow float NumFloat)", gen_pow, ref_pow, 1e-13, seed=12)
    # p in {-1, 2, 0.5, 1}: correctly rounded (= 1/x, x*x, sqrt x, x; libm pow itself is only < 1 ulp);
    # -2, 3, -0.5, ...: about 1 ulp
    ps = R(13)
    sp = [(logu(ps, 1e-150, 1e150), ps.choice([-1.0, 2.0, 0.5, 1.0])) for _ in range(n)]
    st = Stat("pow_exactp", 0.0)

    def chk_sp(st, cases, out):
        for (bx, by), o in zip(cases, out):
            x, y = fromb(bx), fromb(by)
            want = x if y == 1.0 else x * x if y == 2.0 else 1.0 / x if y == -1.0 else math.sqrt(x)
            st.cmp((x, y), o, want, exact=True)
            if abs(fromb(o) - ref_pow(x, y)) > 2.3e-16 * abs(ref_pow(x, y)):
                st.fail((x, y), fromb(o), ref_pow(x, y), "more than 1 ulp from libm pow")
    jobs.append((st, "pow_exactp", bi("f_pow"), [(bits(x), bits(y)) for x, y in sp], 2, chk_sp))
    sp2 = [(logu(ps, 1e-100, 1e100), ps.choice([-2.0, 3.0, -0.5, -3.0, 4.0, 1.5])) for _ in range(n)]
    st = Stat("pow_smallp", 4.5e-16)

    def chk_sp2(st, cases, out):
        for (bx, by), o in zip(cases, out):
            x, y = fromb(bx), fromb(by)
            st.cmp((x, y), o, ref_pow(x, y))
    jobs.append((st, "pow_smallp", bi("f_pow"), [(bits(x), bits(y)) for x, y in sp2], 2, chk_sp2))
    unary("trunc", "(@ntrunc float NumFloat)", gen_trunc, ref_trunc, 0.0, exact=True, seed=14)
    unary("signum", "(@nsignum float NumFloat)", gen_trunc, ref_signum, 0.0, exact=True, seed=15)
    binary("rem", "(@nrem float NumFloat)", gen_rem, ref_rem, 0.0, exact=True, seed=16)
    # stated range of ncdf: [-8, 8]; outside only 1e-9 (the libm reference itself loses digits there)
    unary("ncdf", "(@ncdf float NumFloat)", gen_ncdf, ref_ncdf, 1e-12, tol_abs=1e-15, seed=17,
          in_tol=lambda x: abs(x) <= 8.0)
    unary("nicdf", "(@nicdf float NumFloat)", gen_nicdf, ref_nicdf, 1e-12, seed=18,
          in_tol=lambda p: 1e-12 <= p <= 1 - 1e-12)

    t0 = time.time()

    def go(job):
        st, tag, fn, cases, arity, chk = job
        out, dt = coq_map(tag, fn, cases, arity)
        st.secs = dt
        chk(st, cases, out)
        return st
    with ThreadPoolExecutor(max_workers=min(8, os.cpu_count() or 2)) as ex:
        stats = list(ex.map(go, jobs))

    # extra: nicdf consistency  ncdf(nicdf p) ~ p, evaluated fully inside Coq
    pts = [p for p in gen_nicdf(R(19), n) if p == p and 1e-12 <= p <= 1 - 1e-12]
    st = Stat("cdf(icdf p)", 1e-12)
    out, st.secs = coq_map("cdfinv", un("(fun p => f_ncdf (f_nicdf p))"), [bits(p) for p in pts], 1)
    for p, o in zip(pts, out):
        got = fromb(o)
        st.n += 1
        if got != got:
            st.fail(p, got, p, "NaN")
            continue
        r = abs(got - p) / p
        if r > st.max_rel:
            st.max_rel, st.worst = r, p
        # condition number of the composition wrt the rounding of nicdf: x*phi(x)/Phi(x) ~ x^2 <= 50
        if r > 1e-12:
            st.fail(p, got, p, "inconsistent rel %.3g" % r)
    stats.append(st)

    print("numfloat selftest: seed=%d n=%d, total wall %.1fs" % (a.seed, n, time.time() - t0))
    ok = True
    for st in stats:
        ok = st.report() and ok
    if not a.keep:
        shutil.rmtree(WORK, ignore_errors=True)
    print("RESULT: %s" % ("PASS" if ok else "FAIL"))
    return 0 if ok else 1


if __name__ == "__main__":
    sys.exit(main())
