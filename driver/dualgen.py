"""Generators, encoders and decoders for the `dual` domain (C01, C02, C03, C17, C18, C19).
Encoding: see harness/src/dual.rs, harness/src/numenc.rs and coq/theories/Run/RunDual.v / RunNum.v."""
import math
import statistics
from common import f2b, b2f, fclose

ND = statistics.NormalDist()
ALPHA = ["x", "y", "z", "w", "v", "u"]

# ---------------------------------------------------------------------------------------------
# encoding


def enc_name(s):
    return [len(s)] + [ord(c) for c in s]


def enc_names(l):
    out = [len(l)]
    for s in l:
        out += enc_name(s)
    return out


def enc_f(x):
    return [f2b(x)]


def enc_dual(vars_, re, du):
    out = enc_names(vars_) + enc_f(re)
    for d in du:
        out += enc_f(d)
    return out


def enc_dual2(vars_, re, du, dd):
    out = enc_dual(vars_, re, du)
    for row in dd:
        for d in row:
            out += enc_f(d)
    return out


def enc_number(n):
    """n = ('f', x) | ('d', vars, re, du) | ('d2', vars, re, du, dd)"""
    if n[0] == "f":
        return [0] + enc_f(n[1])
    if n[0] == "d":
        return [1] + enc_dual(n[1], n[2], n[3])
    return [2] + enc_dual2(n[1], n[2], n[3], n[4])


TAGS = {"var": 0, "cst": 1, "add": 2, "addf": 3, "fadd": 4, "sub": 5, "subf": 6, "fsub": 7, "mul": 8, "mulf": 9,
        "fmul": 10, "div": 11, "divf": 12, "fdiv": 13, "neg": 14, "negref": 15, "pow": 16, "powref": 17,
        "exp": 18, "log": 19, "ncdf": 20, "nicdf": 21, "abs": 22}


def enc_expr(e):
    t = e[0]
    k = TAGS[t]
    if t == "var":
        return [k] + enc_name(e[1])
    if t == "cst":
        return [k] + enc_f(e[1])
    if t in ("add", "sub", "mul", "div"):
        return [k] + enc_expr(e[1]) + enc_expr(e[2])
    if t in ("addf", "subf", "mulf", "divf", "pow", "powref"):
        return [k] + enc_expr(e[1]) + enc_f(e[2])
    if t in ("fadd", "fsub", "fmul", "fdiv"):
        return [k] + enc_f(e[1]) + enc_expr(e[2])
    return [k] + enc_expr(e[1])


def enc_env(env):
    out = [len(env)]
    for n, v in env:
        out += enc_name(n) + enc_f(v)
    return out


def show_expr(e):
    t = e[0]
    if t == "var":
        return e[1]
    if t == "cst":
        return "C(%r)" % e[1]
    sym = {"add": "+", "sub": "-", "mul": "*", "div": "/"}
    if t in sym:
        return "(%s %s %s)" % (show_expr(e[1]), sym[t], show_expr(e[2]))
    if t in ("addf", "subf", "mulf", "divf"):
        return "(%s %s %r)" % (show_expr(e[1]), sym[t[:-1]], e[2])
    if t in ("fadd", "fsub", "fmul", "fdiv"):
        return "(%r %s %s)" % (e[1], sym[t[1:]], show_expr(e[2]))
    if t in ("pow", "powref"):
        return "%s(%s, %r)" % (t, show_expr(e[1]), e[2])
    return "%s(%s)" % (t, show_expr(e[1]))


# ---------------------------------------------------------------------------------------------
# independent python evaluation (plain floats) — used to keep generated points inside the
# differentiable domain and as a finite-difference oracle in replays

class OutOfDomain(Exception):
    pass


def ncdf(x):
    return 0.5 * math.erfc(-x / math.sqrt(2.0))


def eval_py(e, env, strict=True, order=1):
    """plain evaluation in python floats. strict=True keeps generous margins to the boundary of the differentiable
    domain (used for random trees); strict=False only excludes genuinely non-differentiable / non-finite points
    (used for the extreme-magnitude sweeps). A zero base of pow is differentiable for exponents 0, 1, 2, ..."""
    t = e[0]
    m = 0.05 if strict else 0.0
    if t == "var":
        return env[e[1]]
    if t == "cst":
        return e[1]
    if t in ("add", "sub", "mul", "div"):
        a, b = eval_py(e[1], env, strict, order), eval_py(e[2], env, strict, order)
    elif t in ("addf", "subf", "mulf", "divf"):
        a, b = eval_py(e[1], env, strict, order), e[2]
    elif t in ("fadd", "fsub", "fmul", "fdiv"):
        a, b = e[1], eval_py(e[2], env, strict, order)
    else:
        a = eval_py(e[1], env, strict, order)
        b = None

    def fin(r):
        if not math.isfinite(r) or (r != 0.0 and not (1e-290 < abs(r) < 1e290)):
            raise OutOfDomain()
        return r
    if t in ("add", "addf", "fadd"):
        return fin(a + b)
    if t in ("sub", "subf", "fsub"):
        return fin(a - b)
    if t in ("mul", "mulf", "fmul"):
        return fin(a * b)
    if t in ("div", "divf", "fdiv"):
        if abs(b) <= m:
            raise OutOfDomain()
        return fin(a / b)
    if t in ("neg", "negref"):
        return -a
    if t in ("pow", "powref"):
        p = e[2]
        ok = a > m or (a < -m and float(p).is_integer()) or \
            (not strict and a == 0.0 and float(p).is_integer() and p >= 0)
        if not ok:
            raise OutOfDomain()
        r = math.pow(a, p)
        if strict and (abs(r) > 1e4 or abs(math.pow(a, p - 2)) > 1e4):
            raise OutOfDomain()
        if not strict and a != 0.0:
            fin(math.pow(abs(a), p - 2))
        return fin(r)
    if t == "exp":
        if a > (8 if strict else 650):
            raise OutOfDomain()
        return fin(math.exp(a))
    if t == "log":
        if a <= m:
            raise OutOfDomain()
        return math.log(a)
    if t == "ncdf":
        if abs(a) > (6 if strict else 8):
            raise OutOfDomain()
        return ncdf(a)
    if t == "nicdf":
        lo = 0.02 if strict else 1e-12
        if not (lo < a < 1 - lo):
            raise OutOfDomain()
        return ND.inv_cdf(a)
    if t == "abs":
        if abs(a) <= m:
            raise OutOfDomain()
        return abs(a)
    raise ValueError(t)


EXTREMES = [1e-20, 3e-17, -2e-17, 2.2e-16, 1e-8, -1e-8, 1e8, -1e8, 1e20, -1e20, 1e-150, 1e150, 0.0, 1.0, -1.0, 0.3]


def extreme_cases(order=1):
    """every operator variant on variables of extreme magnitude (tiny, huge, exactly zero where differentiable)"""
    out = []
    x, y = ("var", "x"), ("var", "y")
    pows = [-1.0, 2.0, 0.5, 3.0, -2.0, 1.0, 0.0, 1.5, -0.5, 4.0]
    for xv in EXTREMES:
        for yv in (1.5, xv, -0.7, 1e-20, 1e20):
            env = [("x", xv), ("y", yv)]
            cands = []
            for t in ("add", "sub", "mul", "div"):
                cands += [(t, x, y), (t, y, x), (t + "f", x, 2.5), ("f" + t, 2.5, x), (t + "f", x, 1e-18), ("f" + t, 1e18, x)]
            for t in ("neg", "negref", "exp", "log", "ncdf", "nicdf", "abs"):
                cands.append((t, x))
            for p in pows:
                cands += [("pow", x, p), ("powref", x, p), ("pow", ("sub", x, y), p), ("mul", ("pow", x, p), y)]
            cands += [("pow", ("sub", x, y), 2.0), ("mul", ("sub", x, y), ("sub", x, y)), ("div", y, ("pow", x, 2.0))]
            for e in cands:
                try:
                    eval_py(e, dict(env), strict=False, order=order)
                    out.append((env, e))
                except (OutOfDomain, OverflowError, ValueError, ZeroDivisionError):
                    pass
    # de-duplicate
    seen, res = set(), []
    for env, e in out:
        k = (tuple(env), repr(e))
        if k not in seen:
            seen.add(k)
            res.append((env, e))
    return res


def nice_float(rng, lo=-3.0, hi=3.0):
    k = rng.random()
    if k < 0.3:
        return float(rng.choice([0.5, 1.0, 1.5, 2.0, 2.5, 3.0, -0.5, -1.0, -1.5, -2.0, 0.25, 4.0]))
    return rng.uniform(lo, hi)


def gen_expr(rng, depth, names, env, ops=None):
    """Random tree with every intermediate inside the differentiable domain (with margins) and of
    moderate magnitude. Returns (expr, value)."""
    allops = ops or ["add", "addf", "fadd", "sub", "subf", "fsub", "mul", "mulf", "fmul", "div", "divf", "fdiv",
                     "neg", "negref", "pow", "powref", "exp", "log", "ncdf", "nicdf", "abs"]
    for _ in range(200):
        try:
            if depth == 0 or rng.random() < 0.10:
                if rng.random() < 0.9:
                    v = rng.choice(names)
                    e = ("var", v)
                else:
                    e = ("cst", nice_float(rng))
            else:
                t = rng.choice(allops) if rng.random() < 0.45 else rng.choice([o for o in allops if o in ("add", "sub", "mul", "div")] or allops)
                if t in ("add", "sub", "mul", "div"):
                    a, _ = gen_expr(rng, depth - 1, names, env, ops)
                    b, _ = gen_expr(rng, rng.randint(0, depth - 1), names, env, ops)
                    if rng.random() < 0.5:
                        a, b = b, a
                    e = (t, a, b)
                elif t in ("addf", "subf", "mulf", "divf"):
                    a, _ = gen_expr(rng, depth - 1, names, env, ops)
                    e = (t, a, nice_float(rng))
                elif t in ("fadd", "fsub", "fmul", "fdiv"):
                    a, _ = gen_expr(rng, depth - 1, names, env, ops)
                    e = (t, nice_float(rng), a)
                elif t in ("pow", "powref"):
                    a, _ = gen_expr(rng, depth - 1, names, env, ops)
                    p = rng.choice([-1.0, 2.0, 0.5, 3.0, -2.0, 1.0, 0.0, 1.5, -0.5, rng.uniform(-3, 3)])
                    e = (t, a, float(p))
                else:
                    a, _ = gen_expr(rng, depth - 1, names, env, ops)
                    e = (t, a)
            v = eval_py(e, env)
            if not math.isfinite(v) or abs(v) > 1e3:
                raise OutOfDomain()
            return e, v
        except (OutOfDomain, OverflowError, ValueError, ZeroDivisionError):
            continue
    return ("var", names[0]), env[names[0]]


def gen_env(rng, nvars):
    names = ALPHA[:nvars]
    rng.shuffle(names)
    return [(n, rng.choice([rng.uniform(0.2, 2.5), rng.uniform(-2.5, -0.2), rng.uniform(0.3, 0.9)])) for n in names]


def depth_of(e):
    if e[0] in ("var", "cst"):
        return 0
    return 1 + max(depth_of(x) for x in e[1:] if isinstance(x, tuple))


def ops_of(e, acc=None):
    acc = acc if acc is not None else {}
    acc[e[0]] = acc.get(e[0], 0) + 1
    for x in e[1:]:
        if isinstance(x, tuple):
            ops_of(x, acc)
    return acc


def fd_gradient(e, env, h=1e-6):
    """central finite differences of the plain evaluation (python floats)"""
    out = {}
    d = dict(env)
    for n, v in env:
        try:
            d[n] = v + h
            up = eval_py(e, d)
            d[n] = v - h
            dn = eval_py(e, d)
            out[n] = (up - dn) / (2 * h)
        except Exception:
            out[n] = None
        d[n] = v
    return out


# ---------------------------------------------------------------------------------------------
# decoding of outputs into structures whose leaves are ('f', float) or ints

class Dec:
    def __init__(self, l):
        self.l = l
        self.i = 0

    def n(self):
        v = self.l[self.i]
        self.i += 1
        return v

    def f(self):
        return ("f", b2f(self.n()))

    def name(self):
        k = self.n()
        s = "".join(chr(self.n()) for _ in range(k))
        return s

    def names(self):
        return [self.name() for _ in range(self.n())]

    def vec(self):
        return [self.f() for _ in range(self.n())]

    def mat(self):
        r, c = self.n(), self.n()
        return {"shape": (r, c), "data": [self.f() for _ in range(r * c)]}

    # Dual / Dual2 results are compared BY NAME: no property pins the order in which a result stores its variables
    # (C03: "depends only on ... its derivative per variable name"), so a well-formed result is put in canonical form -
    # names sorted, derivative arrays permuted with them.  The name SET, the array shapes and duplicate-freeness stay
    # observable (an ill-formed result is left exactly as printed).
    def dual(self):
        vs, re, du = self.names(), self.f(), self.vec()
        if len(set(vs)) == len(vs) == len(du):
            o = sorted(range(len(vs)), key=lambda i: vs[i])
            vs, du = [vs[i] for i in o], [du[i] for i in o]
        return {"vars": vs, "re": re, "du": du}

    def dual2(self):
        vs, re, du = self.names(), self.f(), self.vec()
        dd = self.mat()
        n = len(vs)
        if len(set(vs)) == n == len(du) and dd["shape"] == (n, n) and len(dd["data"]) == n * n:
            o = sorted(range(n), key=lambda i: vs[i])
            vs, du = [vs[i] for i in o], [du[i] for i in o]
            dd = {"shape": (n, n), "data": [dd["data"][i * n + j] for i in o for j in o]}
        return {"vars": vs, "re": re, "du": du, "dd": dd}

    def number(self):
        k = self.n()
        if k == 0:
            return {"kind": 0, "v": self.f()}
        if k == 1:
            return {"kind": 1, "v": self.dual()}
        return {"kind": 2, "v": self.dual2()}

    def done(self):
        return self.i == len(self.l)


def decode(out, schema):
    """schema: list of 'f' | 'dual' | 'dual2' | 'vec' | 'mat' | 'number' | 'int' | 'dual2list'.
    Outcome prefix 0/1/2 is handled here. Returns ('ok', [items]) | ('err',) | ('panic',) | ('bad', raw)."""
    if out == [1]:
        return ("err",)
    if out == [2]:
        return ("panic",)
    if not out or out[0] != 0:
        return ("bad", out)
    try:
        d = Dec(out[1:])
        items = []
        for s in schema:
            if s == "f":
                items.append(d.f())
            elif s == "int":
                items.append(d.n())
            elif s == "dual2list":
                items.append([d.dual2() for _ in range(d.n())])
            else:
                items.append(getattr(d, s)())
        if not d.done():
            return ("bad", out)
        return ("ok", items)
    except IndexError:
        return ("bad", out)


def floats_in(x, acc):
    if isinstance(x, tuple) and len(x) == 2 and x[0] == "f":
        acc.append(x[1])
    elif isinstance(x, dict):
        for v in x.values():
            floats_in(v, acc)
    elif isinstance(x, (list, tuple)):
        for v in x:
            floats_in(v, acc)


def same(a, b, rtol, scale):
    """structural comparison; floats within rtol * max(1, scale, |a|, |b|) (classes nan/inf must match)"""
    if isinstance(a, tuple) and len(a) == 2 and a[0] == "f":
        if not (isinstance(b, tuple) and len(b) == 2 and b[0] == "f"):
            return False
        x, y = a[1], b[1]
        return fclose(x, y, rtol=rtol, atol=rtol * scale)
    if isinstance(a, dict):
        return isinstance(b, dict) and a.keys() == b.keys() and all(same(a[k], b[k], rtol, scale) for k in a)
    if isinstance(a, (list, tuple)):
        return isinstance(b, (list, tuple)) and len(a) == len(b) and all(same(x, y, rtol, scale) for x, y in zip(a, b))
    return a == b


def agree(impl, model, schema, rtol=1e-8):
    da, db = decode(impl, schema), decode(model, schema)
    if da[0] != db[0]:
        return False, da, db
    if da[0] != "ok":
        return (impl == model), da, db
    fl = []
    floats_in(da[1], fl)
    floats_in(db[1], fl)
    fin = [abs(x) for x in fl if math.isfinite(x)]
    scale = max(fin) if fin else 1.0
    scale = min(scale, 1e12)
    return same(da[1], db[1], rtol, scale), da, db


def plain(x):
    """json-friendly rendering of a decoded structure"""
    if isinstance(x, tuple) and len(x) == 2 and x[0] == "f":
        return x[1] if math.isfinite(x[1]) else repr(x[1])
    if isinstance(x, dict):
        return {k: plain(v) for k, v in x.items()}
    if isinstance(x, (list, tuple)):
        return [plain(v) for v in x]
    return x
