#!/usr/bin/env python3
"""Pins the fingerprints of the anchored sources of every property (run after every commit to /repo):
   python3 driver/fingerprint.py --update"""
import json, os, sys
sys.path.insert(0, os.path.dirname(os.path.abspath(__file__)))
import common
props = [json.loads(l)["id"] for l in open(os.path.join(common.ROOT, "properties.jsonl"))]
fp = {p: common.fingerprint(p) for p in props}
path = os.path.join(common.ROOT, "driver", "fingerprints.json")
if "--update" in sys.argv:
    json.dump(fp, open(path, "w"), indent=1)
    print("pinned", len(fp))
else:
    old = common.pinned_fingerprints()
    print({p: ("same" if old.get(p) == fp[p] else "DIFFERS") for p in props})
