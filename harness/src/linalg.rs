//! C13: linear solver.  Mirror of coq/theories/Run/RunLinalg.v.
//!   case   = op kind lsq  m name*(m)  r c  A-entries(r*c, row major)  nb  b-entries(nb)
//!     op   : 0 dsolve(A, b, lsq)      A and b of `kind`
//!            1 fdsolve(A, b, lsq)     A of f64, b of `kind`
//!            2 dmul21_(A, b)          3 fdmul21_(A, b)         5 dmul22_(A.t(), A)
//!            7 / 8  residual oracle (real code only): x = dsolve / fdsolve (A, b, lsq), then
//!                   M x - v through the real dmul21_/fdmul21_ (M, v = A, b or A^T A, A^T b);
//!                   prints the residual entries, then the entries of v
//!     kind : 0 f64 | 1 Dual | 2 Dual2 (encodings of numenc.rs) | 3 / 4 Number (each entry `number`-encoded; output as Dual2 / Dual)
//!     lsq  : bit 0 = allow_lsq; bits 1.. = MEMORY LAYOUT in which the same matrix A is handed to the library:
//!            0 row-major (C order), 1 column-major (Fortran order, contiguous), 2 every other column of a wider array
//!            (strided, not contiguous), 3 a row-reversed view (negative stride)
//!   output = 2 (abort) | 0 n entry*(n), entry = re [gradient1(names)] [gradient2(names) row major]
//!            followed, for kinds 1 and 2, by the marker -7 and per entry `nvars idx*` = the stored
//!            variable order as indices into `names` (layout statistics only, never a verdict)
use crate::cal::Rd;
use crate::numenc::{read_dual, read_dual2, read_f, read_names, read_number};
use crate::{f2i, guard, Ints};
use ndarray::{s, Array1, Array2, ArrayView2, ShapeBuilder};
use num_traits::identities::Zero;
use num_traits::Signed;
use rateslib::dual::linalg::{dmul21_, dmul22_, dsolve, fdmul21_, fdsolve};
use rateslib::dual::{Dual, Dual2, Gradient1, Gradient2, Number, Vars};
use std::iter::Sum;
use std::ops::{Div, Mul, Sub};

fn rd_f64(r: &mut Rd) -> f64 {
    read_f(r)
}
fn out_f(_names: &[String], x: &f64, out: &mut Ints) {
    out.push(f2i(*x));
}
fn out_d(names: &[String], x: &Dual, out: &mut Ints) {
    out.push(f2i(x.real()));
    out.extend(x.gradient1(names.to_vec()).iter().map(|g| f2i(*g)));
}
fn out_d2(names: &[String], x: &Dual2, out: &mut Ints) {
    out.push(f2i(x.real()));
    out.extend(x.gradient1(names.to_vec()).iter().map(|g| f2i(*g)));
    out.extend(x.gradient2(names.to_vec()).iter().map(|g| f2i(*g)));
}
fn out_num(names: &[String], x: &Number, out: &mut Ints) {
    out_d2(names, &Dual2::from(x.clone()), out)
}
fn out_num1(names: &[String], x: &Number, out: &mut Ints) {
    out_d(names, &Dual::from(x.clone()), out)
}
fn lay_num(_names: &[String], _x: &Number, _out: &mut Ints) {}
fn lay_f(_names: &[String], _x: &f64, _out: &mut Ints) {}
fn lay_vars<'a, I: Iterator<Item = &'a String>>(names: &[String], it: I, out: &mut Ints) {
    let v: Vec<i128> = it
        .map(|s| names.iter().position(|n| n == s).map(|p| p as i128).unwrap_or(-1))
        .collect();
    out.push(v.len() as i128);
    out.extend(v);
}
fn lay_d(names: &[String], x: &Dual, out: &mut Ints) {
    lay_vars(names, x.vars().iter(), out)
}
fn lay_d2(names: &[String], x: &Dual2, out: &mut Ints) {
    lay_vars(names, x.vars().iter(), out)
}

struct Io<T> {
    read: fn(&mut Rd) -> T,
    write: fn(&[String], &T, &mut Ints),
    layout: fn(&[String], &T, &mut Ints),
    has_layout: bool,
}

fn put_vec<T>(io: &Io<T>, names: &[String], xs: &[T]) -> Ints {
    let mut out: Ints = vec![xs.len() as i128];
    for x in xs {
        (io.write)(names, x, &mut out);
    }
    if io.has_layout && !xs.is_empty() {
        out.push(-7);
        for x in xs {
            (io.layout)(names, x, &mut out);
        }
    }
    out
}

/// the matrix `a` held in another memory layout; `view()` is the same r x c matrix
enum Held<X> {
    Plain(Array2<X>),
    Strided(Array2<X>),
    Rev(Array2<X>),
}
impl<X: Clone> Held<X> {
    fn new(a: &Array2<X>, layout: i128) -> Self {
        let (r, c) = a.dim();
        match layout {
            1 => {
                let mut data = Vec::with_capacity(r * c);
                for j in 0..c {
                    for i in 0..r {
                        data.push(a[[i, j]].clone());
                    }
                }
                Held::Plain(Array2::from_shape_vec((r, c).f(), data).expect("shape"))
            }
            2 => Held::Strided(Array2::from_shape_fn((r, 2 * c), |(i, j)| a[[i, j / 2]].clone())),
            3 if r > 0 => Held::Rev(Array2::from_shape_fn((r, c), |(i, j)| a[[r - 1 - i, j]].clone())),
            _ => Held::Plain(a.clone()),
        }
    }
    fn view(&self) -> ArrayView2<'_, X> {
        match self {
            Held::Plain(a) => a.view(),
            Held::Strided(b) => b.slice(s![.., ..;2]),
            Held::Rev(b) => b.slice(s![..;-1, ..]),
        }
    }
}

fn run_t<T>(io: Io<T>, op: i128, lsq: bool, layout: i128, names: &[String], r: usize, c: usize, rd: &mut Rd) -> Ints
where
    T: PartialOrd + Signed + Clone + Sum + Zero,
    for<'a> &'a T: Sub<&'a T, Output = T> + Mul<&'a T, Output = T> + Div<&'a T, Output = T>,
    for<'a> &'a f64: Mul<&'a T, Output = T>,
{
    let f64_matrix = matches!(op, 1 | 3 | 8);
    let af: Vec<f64> = if f64_matrix { (0..r * c).map(|_| rd_f64(rd)).collect() } else { vec![] };
    let at: Vec<T> = if f64_matrix { vec![] } else { (0..r * c).map(|_| (io.read)(rd)).collect() };
    let nb = rd.next() as usize;
    let b: Vec<T> = (0..nb).map(|_| (io.read)(rd)).collect();
    // building the arrays is harness work, not library work
    let b_ = Array1::from_vec(b);
    if f64_matrix {
        let a_ = Array2::from_shape_vec((r, c), af).expect("shape");
        let h_ = Held::new(&a_, layout);
        match op {
            1 => guard(|| {
                let x = fdsolve(&h_.view(), &b_.view(), lsq);
                Ok(put_vec(&io, names, &x.to_vec()))
            }),
            3 => guard(|| {
                let x = fdmul21_(&h_.view(), &b_.view());
                Ok(put_vec(&io, names, &x.to_vec()))
            }),
            _ => guard(|| {
                let x = fdsolve(&h_.view(), &b_.view(), lsq);
                let (m, v) = if lsq {
                    (dmul22_::<f64>(&a_.t(), &a_.view()), fdmul21_(&a_.t(), &b_.view()))
                } else {
                    (a_.clone(), b_.clone())
                };
                let mx = fdmul21_(&m.view(), &x.view());
                let res: Vec<T> = mx.iter().zip(v.iter()).map(|(p, q)| p - q).collect();
                let mut out = put_vec(&io, names, &res);
                out.extend(put_vec(&io, names, &v.to_vec()));
                Ok(out)
            }),
        }
    } else {
        let a_ = Array2::from_shape_vec((r, c), at).expect("shape");
        let h_ = Held::new(&a_, layout);
        match op {
            0 => guard(|| {
                let x = dsolve(&h_.view(), &b_.view(), lsq);
                Ok(put_vec(&io, names, &x.to_vec()))
            }),
            2 => guard(|| {
                let x = dmul21_(&h_.view(), &b_.view());
                Ok(put_vec(&io, names, &x.to_vec()))
            }),
            5 => guard(|| {
                let m = dmul22_(&a_.t(), &a_.view());
                let mut out: Ints = vec![m.nrows() as i128, m.ncols() as i128];
                for x in m.iter() {
                    (io.write)(names, x, &mut out);
                }
                Ok(out)
            }),
            _ => guard(|| {
                let x = dsolve(&h_.view(), &b_.view(), lsq);
                let (m, v) = if lsq {
                    (dmul22_(&a_.t(), &a_.view()), dmul21_(&a_.t(), &b_.view()))
                } else {
                    (a_.clone(), b_.clone())
                };
                let mx = dmul21_(&m.view(), &x.view());
                let res: Vec<T> = mx.iter().zip(v.iter()).map(|(p, q)| p - q).collect();
                let mut out = put_vec(&io, names, &res);
                out.extend(put_vec(&io, names, &v.to_vec()));
                Ok(out)
            }),
        }
    }
}

pub fn run(_op: &str, a: &Ints) -> Ints {
    // the first token of the line is the op itself (an integer); main.rs passes it as `_op`
    let op: i128 = _op.parse().expect("op");
    let mut rd = Rd::new(a);
    let kind = rd.next();
    let flags = rd.next();
    let (lsq, layout) = (flags & 1 == 1, flags >> 1);
    let names = read_names(&mut rd);
    let r = rd.next() as usize;
    let c = rd.next() as usize;
    match kind {
        0 => run_t(
            Io::<f64> { read: rd_f64, write: out_f, layout: lay_f, has_layout: false },
            op, lsq, layout, &names, r, c, &mut rd,
        ),
        1 => run_t(
            Io::<Dual> { read: read_dual, write: out_d, layout: lay_d, has_layout: true },
            op, lsq, layout, &names, r, c, &mut rd,
        ),
        2 => run_t(
            Io::<Dual2> { read: read_dual2, write: out_d2, layout: lay_d2, has_layout: true },
            op, lsq, layout, &names, r, c, &mut rd,
        ),
        // kind 3: the generic solver instantiated at the CONTAINER type: every entry a Number (floats and dual numbers of ONE
        // order mixed in one system); entries are encoded as numbers, results written like Dual2 results
        3 => run_t(
            Io::<Number> { read: read_number, write: out_num, layout: lay_num, has_layout: false },
            op, lsq, layout, &names, r, c, &mut rd,
        ),
        // kind 4: as 3 for floats mixed with FIRST-order numbers; results written like Dual results
        _ => run_t(
            Io::<Number> { read: read_number, write: out_num1, layout: lay_num, has_layout: false },
            op, lsq, layout, &names, r, c, &mut rd,
        ),
    }
}
