//! C06/C07: built-in named calendars on the REAL code.
//!   hol  <name> d0 cnt        -> 0 hash([is_holiday, is_bus_day] for d0..d0+cnt) of get_calendar_by_name(name) | 1 | 2
//!   holn <name> d0 cnt route  -> the same hash through NamedCal::try_new(name) (route 1) / CalType::NamedCal (route 2)
//!   one  <name> d             -> 0 is_holiday is_bus_day is_weekday                                          | 1 | 2
//!   res  <name>               -> 0 | 1 | 2      (does get_calendar_by_name resolve)
//!   dyn  <name> lo hi         -> 0 w0..w6 (1 = that weekday, Mon=0, is masked) nh h* (every day of lo..=hi with is_holiday) | 1 | 2
//!                                (the table the RUNNING code answers with; used by the translator when the wiring in
//!                                 named/mod.rs is written in a form it cannot read)
//!   nvu  <name> nmem <part>* has_settle [ns <part>*] lo hi
//!        NamedCal::try_new(name) against the EXPLICIT UnionCal::new([get_calendar_by_name(part)..], settle)
//!        date for date over lo..=hi (is_bus_day, is_settlement, is_weekday, is_holiday)
//!        -> 0 n_mismatches first_mismatch_day(or -1) (named==union) (union==named) (cal0==named if one member, no settle; else -1)
//!        | 1 (try_new or a part is an error) | 2 (abort)
//!   <name>/<part> = len <code points>
use crate::cal::Rd;
use crate::dates::from_n;
use crate::{guard, hash, Ints};
use rateslib::calendars::{get_calendar_by_name, Cal, DateRoll, NamedCal, UnionCal};

fn read_name(r: &mut Rd) -> String {
    let n = r.next() as usize;
    r.take(n).iter().map(|c| char::from_u32(*c as u32).unwrap()).collect()
}

fn parts(r: &mut Rd, n: usize) -> Result<Vec<Cal>, ()> {
    let mut v = vec![];
    for _ in 0..n {
        let nm = read_name(r);
        v.push(get_calendar_by_name(&nm).map_err(|_| ())?);
    }
    Ok(v)
}

pub fn run(op: &str, a: &Ints) -> Ints {
    let mut r = Rd::new(a);
    match op {
        "hol" => guard(|| {
            let name = read_name(&mut r);
            let c = get_calendar_by_name(&name).map_err(|_| ())?;
            let (d0, cnt) = (r.next(), r.next());
            let mut out = vec![];
            for d in d0..d0 + cnt {
                let dt = from_n(d);
                out.push(c.is_holiday(&dt) as i128);
                out.push(c.is_bus_day(&dt) as i128);
            }
            Ok(vec![hash(&out)])
        }),
        // the same sweep asked of NamedCal::try_new(name) (route 1) / CalType::NamedCal (route 2): the route the Python
        // get_calendar and every curve take - a named calendar holds a UnionCal, not the Cal
        "holn" => guard(|| {
            let name = read_name(&mut r);
            let (d0, cnt, route) = (r.next(), r.next(), r.next());
            let n = NamedCal::try_new(&name).map_err(|_| ())?;
            let mut out = vec![];
            if route == 2 {
                let c = rateslib::calendars::CalType::NamedCal(n);
                for d in d0..d0 + cnt {
                    let dt = from_n(d);
                    out.push(c.is_holiday(&dt) as i128);
                    out.push(c.is_bus_day(&dt) as i128);
                }
            } else {
                for d in d0..d0 + cnt {
                    let dt = from_n(d);
                    out.push(n.is_holiday(&dt) as i128);
                    out.push(n.is_bus_day(&dt) as i128);
                }
            }
            Ok(vec![hash(&out)])
        }),
        "one" => guard(|| {
            let name = read_name(&mut r);
            let c = get_calendar_by_name(&name).map_err(|_| ())?;
            let dt = from_n(r.next());
            Ok(vec![c.is_holiday(&dt) as i128, c.is_bus_day(&dt) as i128, c.is_weekday(&dt) as i128])
        }),
        "dyn" => guard(|| {
            let name = read_name(&mut r);
            let c = get_calendar_by_name(&name).map_err(|_| ())?;
            let (lo, hi) = (r.next(), r.next());
            let mut out = vec![];
            // 1970-01-05 is a Monday
            for wd in 0..7 {
                out.push((!c.is_weekday(&from_n(4 + wd))) as i128);
            }
            let mut hs = vec![];
            for d in lo..=hi {
                if c.is_holiday(&from_n(d)) {
                    hs.push(d);
                }
            }
            out.push(hs.len() as i128);
            out.extend(hs);
            Ok(out)
        }),
        "res" => guard(|| {
            let name = read_name(&mut r);
            get_calendar_by_name(&name).map_err(|_| ())?;
            Ok(vec![])
        }),
        "nvu" => guard(|| {
            let name = read_name(&mut r);
            let named = NamedCal::try_new(&name).map_err(|_| ())?;
            let nmem = r.next() as usize;
            let mem = parts(&mut r, nmem)?;
            let settle = if r.next() == 1 {
                let ns = r.next() as usize;
                Some(parts(&mut r, ns)?)
            } else {
                None
            };
            let single = if mem.len() == 1 && settle.is_none() { Some(mem[0].clone()) } else { None };
            let u = UnionCal::new(mem, settle);
            let (lo, hi) = (r.next(), r.next());
            let mut nbad = 0i128;
            let mut first = -1i128;
            for d in lo..=hi {
                let dt = from_n(d);
                let same = named.is_bus_day(&dt) == u.is_bus_day(&dt)
                    && named.is_settlement(&dt) == u.is_settlement(&dt)
                    && named.is_weekday(&dt) == u.is_weekday(&dt)
                    && named.is_holiday(&dt) == u.is_holiday(&dt);
                if !same {
                    nbad += 1;
                    if first == -1 {
                        first = d;
                    }
                }
            }
            let e3 = match single {
                Some(c) => (c == named) as i128,
                None => -1,
            };
            Ok(vec![nbad, first, (named == u) as i128, (u == named) as i128, e3])
        }),
        _ => panic!("bad op"),
    }
}
