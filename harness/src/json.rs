//! C16 / C20: save / load and the fallible constructors.  Mirror of coq/theories/Run/RunJson.v.
//!
//! JSON tree encoding (prefix, all integers):
//!   0 null | 1 b bool | 2 z integer | 3 bits float | 4 n cp* string | 5 n item* array
//!   6 n (key item)* object, key = 0 n cp* (text) | 1 z (decimal spelling of z) | 7 d date string of day d
//! Object encoding:  kind payload
//!   0 Dual <dual> | 1 Dual2 <dual2> (numenc)            2 Cal  nmask mask* nhols hols*
//!   3 UnionCal ncals cal* has_settle [ns cal*]           4 NamedCal name
//!   5 FXRates nq (name name number has_settle [d])* has_base [name] order(0|1|2) nupd (name name number has_settle [d])*
//!             (the market is constructed, then `update`d with the nupd quotes, then switched to `order`)
//!   6 Curve nodekind(0|1|2) nn (day value)* rule(0..5) id(name) conv(0..10) modifier(0..4)
//!           has_base [bits] calkind(0 Cal|1 UnionCal|2 NamedCal) cal
//!   7|8|9 PPSpline F64|Dual|Dual2: k nt t* has_c [nc c*]
//! Text is returned as `nbytes byte*`.
use crate::cal::Rd;
use crate::dates::{from_n, to_n};
use crate::numenc::{read_dual, read_dual2, read_f, read_fs, read_name, read_names, read_number, write_number};
use crate::{f2i, guard, i2f, Ints};
use chrono::NaiveDateTime;
use indexmap::IndexMap;
use rateslib::calendars::{Cal, CalType, Convention, DateRoll, Modifier, NamedCal, UnionCal};
use rateslib::curves::Nodes;
use rateslib::dual::{ADOrder, Dual, Dual2, Gradient1, Gradient2, Vars};
use rateslib::fx::rates::{Ccy, FXPair, FXRate, FXRates};
use rateslib::splines::PPSpline;
use rateslib::verif_hooks::json_hooks::{Tagged, KINDS};
use std::panic::{catch_unwind, AssertUnwindSafe};

// ------------------------------------------------------------------------------------------ text
fn push_str_lit(s: &str, out: &mut String) {
    out.push('"');
    for c in s.chars() {
        match c {
            '"' => out.push_str("\\\""),
            '\\' => out.push_str("\\\\"),
            c if (c as u32) < 0x20 => out.push_str(&format!("\\u{:04x}", c as u32)),
            c => out.push(c),
        }
    }
    out.push('"');
}
fn date_text(d: i128) -> String {
    from_n(d).format("%Y-%m-%dT%H:%M:%S").to_string()
}
fn cps(v: &[i128]) -> String {
    v.iter().map(|c| char::from_u32(*c as u32).unwrap_or('\u{fffd}')).collect()
}
fn print_tree(r: &mut Rd, out: &mut String) {
    match r.next() {
        0 => out.push_str("null"),
        1 => out.push_str(if r.next() != 0 { "true" } else { "false" }),
        2 => out.push_str(&r.next().to_string()),
        3 => {
            let x = i2f(r.next());
            if x.is_finite() {
                out.push_str(&format!("{:?}", x));
            } else {
                out.push_str("null");
            }
        }
        4 => {
            let n = r.next() as usize;
            push_str_lit(&cps(&r.take(n)), out);
        }
        7 => push_str_lit(&date_text(r.next()), out),
        5 => {
            let n = r.next() as usize;
            out.push('[');
            for i in 0..n {
                if i > 0 {
                    out.push(',');
                }
                print_tree(r, out);
            }
            out.push(']');
        }
        6 => {
            let n = r.next() as usize;
            out.push('{');
            for i in 0..n {
                if i > 0 {
                    out.push(',');
                }
                match r.next() {
                    0 => {
                        let m = r.next() as usize;
                        push_str_lit(&cps(&r.take(m)), out);
                    }
                    _ => push_str_lit(&r.next().to_string(), out),
                }
                out.push(':');
                print_tree(r, out);
            }
            out.push('}');
        }
        _ => panic!("bad tree tag"),
    }
}
fn text_out(s: &str, out: &mut Ints) {
    out.push(s.len() as i128);
    out.extend(s.bytes().map(|b| b as i128));
}
fn kind_idx(k: &str) -> i128 {
    KINDS.iter().position(|x| *x == k).unwrap() as i128
}

/// outcome of a load: `0 kind nshape shape* ntext text` | 1 | 2
fn load_out(res: std::thread::Result<Result<Tagged, String>>) -> Ints {
    match res {
        Err(_) => vec![2],
        Ok(Err(_)) => vec![1],
        Ok(Ok(t)) => {
            let mut out = vec![0, kind_idx(t.kind())];
            let sh = t.shape();
            out.push(sh.len() as i128);
            out.extend(sh.iter().map(|x| *x as i128));
            match t.to_json() {
                Ok(s) => text_out(&s, &mut out),
                Err(_) => out.push(-1),
            }
            out
        }
    }
}

// ------------------------------------------------------------------------------------------ objects
fn read_cal(r: &mut Rd) -> Cal {
    let nm = r.next() as usize;
    let mask: Vec<u8> = r.take(nm).iter().map(|x| *x as u8).collect();
    let nh = r.next() as usize;
    let hols = r.take(nh).iter().map(|x| from_n(*x)).collect();
    Cal::new(hols, mask)
}
fn read_union(r: &mut Rd) -> UnionCal {
    let nc = r.next() as usize;
    let cals: Vec<Cal> = (0..nc).map(|_| read_cal(r)).collect();
    let settle = if r.next() == 1 {
        let ns = r.next() as usize;
        Some((0..ns).map(|_| read_cal(r)).collect())
    } else {
        None
    };
    UnionCal::new(cals, settle)
}
fn read_fx(r: &mut Rd) -> Result<FXRates, ()> {
    let nq = r.next() as usize;
    let mut rates = Vec::new();
    let mut bad = false;
    for _ in 0..nq {
        let l = read_name(r);
        let rr = read_name(r);
        let x = read_number(r);
        let s = if r.next() == 1 { Some(from_n(r.next())) } else { None };
        match FXRate::try_new(&l, &rr, x, s) {
            Ok(q) => rates.push(q),
            Err(_) => bad = true,
        }
    }
    let base = if r.next() == 1 { Some(read_name(r)) } else { None };
    let order = r.next();
    if bad {
        return Err(());
    }
    let b = match base {
        Some(s) => Some(Ccy::try_new(&s).map_err(|_| ())?),
        None => None,
    };
    let mut fx = FXRates::try_new(rates, b).map_err(|_| ())?;
    // the object may have a history: quotes re-marked through `update` before it is saved
    let nupd = r.next() as usize;
    let mut upd = Vec::new();
    for _ in 0..nupd {
        let l = read_name(r);
        let rr = read_name(r);
        let x = read_number(r);
        let s = if r.next() == 1 { Some(from_n(r.next())) } else { None };
        upd.push(FXRate::try_new(&l, &rr, x, s).map_err(|_| ())?);
    }
    if !upd.is_empty() {
        fx.update(upd).map_err(|_| ())?;
    }
    let ad = match order {
        0 => ADOrder::Zero,
        2 => ADOrder::Two,
        _ => ADOrder::One,
    };
    fx.set_ad_order(ad).map_err(|_| ())?;
    Ok(fx)
}
const CONVS: [Convention; 11] = [
    Convention::One,
    Convention::OnePlus,
    Convention::Act365F,
    Convention::Act365FPlus,
    Convention::Act360,
    Convention::ThirtyE360,
    Convention::Thirty360,
    Convention::Thirty360ISDA,
    Convention::ActActISDA,
    Convention::ActActICMA,
    Convention::Bus252,
];
const MODS: [Modifier; 5] = [Modifier::Act, Modifier::F, Modifier::ModF, Modifier::P, Modifier::ModP];
// order of Model/Json.v rule_names
const RULES: [&str; 6] = ["log_linear", "linear", "linear_zero_rate", "flat_forward", "flat_backward", "null"];

fn read_curve(r: &mut Rd) -> Result<Tagged, ()> {
    let nk = r.next();
    let nn = r.next() as usize;
    let nodes = match nk {
        0 => Nodes::F64(IndexMap::from_iter((0..nn).map(|_| (from_n(r.next()), read_f(r))))),
        1 => Nodes::Dual(IndexMap::from_iter((0..nn).map(|_| (from_n(r.next()), read_dual(r))))),
        _ => Nodes::Dual2(IndexMap::from_iter((0..nn).map(|_| (from_n(r.next()), read_dual2(r))))),
    };
    let rule = RULES[r.next() as usize];
    let id = read_name(r);
    let conv = CONVS[r.next() as usize];
    let md = MODS[r.next() as usize];
    let base = if r.next() == 1 { Some(read_f(r)) } else { None };
    let cal = match r.next() {
        0 => CalType::Cal(read_cal(r)),
        1 => CalType::UnionCal(read_union(r)),
        _ => CalType::NamedCal(NamedCal::try_new(&read_name(r)).map_err(|_| ())?),
    };
    Tagged::curve(nodes, rule, &id, conv, md, base, cal).map_err(|_| ())
}
fn read_spline(kind: i128, r: &mut Rd) -> Tagged {
    let k = r.next() as usize;
    let nt = r.next() as usize;
    let t = read_fs(r, nt);
    let has_c = r.next() == 1;
    match kind {
        7 => {
            let c = if has_c {
                let nc = r.next() as usize;
                Some(read_fs(r, nc))
            } else {
                None
            };
            Tagged::ppspline_f64(k, t, c)
        }
        8 => {
            let c = if has_c {
                let nc = r.next() as usize;
                Some((0..nc).map(|_| read_dual(r)).collect())
            } else {
                None
            };
            Tagged::ppspline_dual(k, t, c)
        }
        _ => {
            let c = if has_c {
                let nc = r.next() as usize;
                Some((0..nc).map(|_| read_dual2(r)).collect())
            } else {
                None
            };
            Tagged::ppspline_dual2(k, t, c)
        }
    }
}
/// Err(()) = a constructor returned an error
fn read_obj(r: &mut Rd) -> Result<Tagged, ()> {
    let kind = r.next();
    Ok(match kind {
        0 => Tagged::of_dual(read_dual(r)),
        1 => Tagged::of_dual2(read_dual2(r)),
        2 => Tagged::of_cal(read_cal(r)),
        3 => Tagged::of_union_cal(read_union(r)),
        4 => Tagged::of_named_cal(NamedCal::try_new(&read_name(r)).map_err(|_| ())?),
        5 => Tagged::of_fxrates(read_fx(r)?),
        6 => read_curve(r)?,
        7 | 8 | 9 => read_spline(kind, r),
        _ => panic!("bad object kind"),
    })
}

// ------------------------------------------------------------------------------------------ queries
fn sample_days(extra: &[i128]) -> Vec<i128> {
    let mut v: Vec<i128> = vec![0, 10956, 19000, 19723, 19812, 19813, 19814, 30000, 84370];
    for d in extra {
        for k in -2..3 {
            v.push(d + k);
        }
    }
    v
}
fn cal_dump<C: DateRoll>(c: &C, days: &[i128], out: &mut Ints) {
    for d in days {
        let dt = from_n(*d);
        out.push(c.is_bus_day(&dt) as i128);
        out.push(c.is_settlement(&dt) as i128);
        out.push(c.is_weekday(&dt) as i128);
        out.push(c.is_holiday(&dt) as i128);
    }
}
fn cal_days(c: &Cal) -> Vec<i128> {
    // the holidays themselves, recovered through the serialised form
    let v: serde_json::Value = serde_json::to_value(c).expect("cal json");
    v["holidays"]
        .as_array()
        .map(|a| {
            a.iter()
                .filter_map(|s| s.as_str())
                .filter_map(|s| NaiveDateTime::parse_from_str(s, "%Y-%m-%dT%H:%M:%S").ok())
                .map(|d| to_n(&d))
                .collect()
        })
        .unwrap_or_default()
}
/// everything the public API answers about the object, as integers (floats as bit patterns)
fn query_dump(t: &Tagged, probe_days: &[i128]) -> Ints {
    let mut out: Ints = vec![];
    let probe = vec!["zz_absent".to_string()];
    if let Some(d) = t.as_dual() {
        out.push(f2i(d.real()));
        let mut vars: Vec<String> = d.vars().iter().cloned().collect();
        out.extend(d.gradient1(vars.clone()).iter().map(|x| f2i(*x)));
        vars.reverse();
        vars.extend(probe.clone());
        out.extend(d.gradient1(vars).iter().map(|x| f2i(*x)));
    }
    if let Some(d) = t.as_dual2() {
        out.push(f2i(d.real()));
        let mut vars: Vec<String> = d.vars().iter().cloned().collect();
        out.extend(d.gradient1(vars.clone()).iter().map(|x| f2i(*x)));
        out.extend(d.gradient2(vars.clone()).iter().map(|x| f2i(*x)));
        vars.reverse();
        vars.extend(probe.clone());
        out.extend(d.gradient1(vars.clone()).iter().map(|x| f2i(*x)));
        out.extend(d.gradient2(vars).iter().map(|x| f2i(*x)));
    }
    if let Some(c) = t.as_cal() {
        cal_dump(c, &sample_days(probe_days), &mut out);
    }
    if let Some(c) = t.as_union_cal() {
        cal_dump(c, &sample_days(probe_days), &mut out);
    }
    if let Some(c) = t.as_named_cal() {
        cal_dump(c, &sample_days(probe_days), &mut out);
        for y in [1975, 2000, 2024, 2100, 2199] {
            let d0 = to_n(&rateslib::calendars::ndt(y, 1, 1));
            for d in d0..d0 + 366 {
                let dt = from_n(d);
                out.push(c.is_bus_day(&dt) as i128 + 2 * (c.is_settlement(&dt) as i128));
            }
        }
    }
    if let Some(f) = t.as_fxrates() {
        let cs = t.fx_currencies().unwrap();
        for a in cs.iter() {
            for b in cs.iter() {
                let (x, y) = (Ccy::try_new(a).unwrap(), Ccy::try_new(b).unwrap());
                match f.rate(&x, &y) {
                    Some(n) => write_number(&n, &mut out),
                    None => out.push(-1),
                }
            }
        }
    }
    if let Some(nodes) = t.curve_nodes() {
        let mut days: Vec<i128> = vec![];
        for (k, v) in nodes.iter() {
            out.push(*k as i128);
            write_number(v, &mut out);
            days.push((*k as i128).div_euclid(86400));
        }
        let mut probes: Vec<i128> = vec![];
        for w in days.windows(2) {
            probes.push(w[0]);
            probes.push((w[0] + w[1]) / 2);
        }
        if let Some(l) = days.last() {
            probes.push(*l);
            probes.push(*l + 40);
        }
        if let Some(f) = days.first() {
            probes.push(*f - 3);
        }
        for d in probes {
            let dt = from_n(d);
            match catch_unwind(AssertUnwindSafe(|| t.curve_value(&dt).unwrap())) {
                Ok(n) => write_number(&n, &mut out),
                Err(_) => out.push(-2),
            }
            match catch_unwind(AssertUnwindSafe(|| t.curve_index_value(&dt).unwrap())) {
                Ok(Ok(n)) => write_number(&n, &mut out),
                Ok(Err(_)) => out.push(-1),
                Err(_) => out.push(-2),
            }
            let (b, s) = t.curve_cal_flags(&dt).unwrap();
            out.push(b as i128 + 2 * (s as i128));
        }
    }
    macro_rules! spline_dump {
        ($s:expr, $wr:expr) => {{
            let s = $s;
            out.push(*s.inner_k() as i128);
            out.push(*s.inner_n() as i128);
            let t = s.inner_t().clone();
            out.extend(t.iter().map(|x| f2i(*x)));
            if s.inner_has_c() && !t.is_empty() {
                let (lo, hi) = (t[0], t[t.len() - 1]);
                for i in 0..7 {
                    let x = lo + (hi - lo) * (i as f64) / 6.0;
                    for m in 0..3 {
                        match catch_unwind(AssertUnwindSafe(|| s.eval(&x, m))) {
                            Ok(Some(v)) => $wr(&v, &mut out),
                            Ok(None) => out.push(-1),
                            Err(_) => out.push(-2),
                        }
                    }
                }
            }
        }};
    }
    if let Some(s) = t.as_ppspline_f64() {
        spline_dump!(SpF(s), |v: &f64, o: &mut Ints| o.push(f2i(*v)));
    }
    if let Some(s) = t.as_ppspline_dual() {
        spline_dump!(SpD(s), |v: &Dual, o: &mut Ints| crate::numenc::write_dual(v, o));
    }
    if let Some(s) = t.as_ppspline_dual2() {
        spline_dump!(SpD2(s), |v: &Dual2, o: &mut Ints| crate::numenc::write_dual2(v, o));
    }
    out
}
// the three Python-facing spline wrappers expose their PPSpline only to the crate; the public
// API of PPSpline<T> is reached through a serde copy
struct SpF<'a>(&'a rateslib::splines::PPSplineF64);
struct SpD<'a>(&'a rateslib::splines::PPSplineDual);
struct SpD2<'a>(&'a rateslib::splines::PPSplineDual2);
// (bincode writes a one-field struct exactly as it writes the field)
macro_rules! spline_access {
    ($w:ident, $t:ty) => {
        impl<'a> $w<'a> {
            fn pp(&self) -> PPSpline<$t> {
                bincode::deserialize(&bincode::serialize(self.0).unwrap()).unwrap()
            }
            fn inner_k(&self) -> Box<usize> {
                Box::new(*self.pp().k())
            }
            fn inner_n(&self) -> Box<usize> {
                Box::new(*self.pp().n())
            }
            fn inner_t(&self) -> Box<Vec<f64>> {
                Box::new(self.pp().t().clone())
            }
            fn inner_has_c(&self) -> bool {
                self.pp().c().is_some()
            }
            fn eval(&self, x: &f64, m: usize) -> Option<$t> {
                self.pp().ppdnev_single(x, m).ok()
            }
        }
    };
}
spline_access!(SpF, f64);
spline_access!(SpD, Dual);
spline_access!(SpD2, Dual2);

fn probe_days_of(t: &Tagged) -> Vec<i128> {
    if let Some(c) = t.as_cal() {
        return cal_days(c).into_iter().take(12).collect();
    }
    vec![]
}

// ------------------------------------------------------------------------------------------ ops
fn shape_out(t: &Tagged, out: &mut Ints) {
    let sh = t.shape();
    out.push(sh.len() as i128);
    out.extend(sh.iter().map(|x| *x as i128));
}

pub fn run(op: &str, a: &Ints) -> Ints {
    let mut r = Rd::new(a);
    match op {
        // tagged from_json of a tree
        "load" => {
            let mut s = String::new();
            print_tree(&mut r, &mut s);
            load_out(catch_unwind(AssertUnwindSafe(|| Tagged::from_json(&s))))
        }
        // direct T::from_json of a tree
        "loadd" => {
            let k = KINDS[r.next() as usize];
            let mut s = String::new();
            print_tree(&mut r, &mut s);
            load_out(catch_unwind(AssertUnwindSafe(|| Tagged::from_json_direct(k, &s))))
        }
        // the text a tree is printed as (for replays)
        "text" => {
            let mut s = String::new();
            print_tree(&mut r, &mut s);
            let mut out = vec![];
            text_out(&s, &mut out);
            out
        }
        // raw bytes to the tagged from_json: outcome class only
        "raw" => {
            let bytes: Vec<u8> = r.rest().iter().map(|b| *b as u8).collect();
            let s = String::from_utf8_lossy(&bytes).to_string();
            match catch_unwind(AssertUnwindSafe(|| Tagged::from_json(&s))) {
                Err(_) => vec![2],
                Ok(Err(_)) => vec![1],
                Ok(Ok(t)) => vec![0, kind_idx(t.kind())],
            }
        }
        // to_json (tagged) of a constructed object
        "enc" | "encd" => match catch_unwind(AssertUnwindSafe(|| read_obj(&mut r))) {
            Err(_) => vec![2],
            Ok(Err(())) => vec![1],
            Ok(Ok(t)) => {
                let mut out = vec![0];
                let s = if op == "enc" { t.to_json() } else { t.to_json_direct() };
                match s {
                    Ok(s) => text_out(&s, &mut out),
                    Err(_) => out.push(-1),
                }
                out
            }
        },
        // round trips of a constructed object:
        //   0 tagged_eq direct_eq bincode_eq q_tagged q_direct q_bincode same_text [first differing query index]
        "rt" => match catch_unwind(AssertUnwindSafe(|| read_obj(&mut r))) {
            Err(_) => vec![2],
            Ok(Err(())) => vec![1],
            Ok(Ok(t0)) => guard(|| {
                let kind = t0.kind();
                // an FX market is rebuilt at AD order one on loading: it is compared in that state
                // (orders zero and one: exactly; order two: the rates, to rounding)
                let mut fx_two = false;
                let t = match t0.as_fxrates() {
                    Some(f) => {
                        fx_two = t0.shape()[2] == 2;
                        let mut g = f.clone();
                        g.set_ad_order(ADOrder::One).map_err(|_| ())?;
                        Tagged::of_fxrates(g)
                    }
                    None => Tagged::from_bincode(kind, &t0.to_bincode().map_err(|_| ())?).map_err(|_| ())?,
                };
                let days = probe_days_of(&t0);
                let q0 = query_dump(&t, &days);
                let mut out: Ints = vec![];
                let txt = t0.to_json().map_err(|_| ())?;
                let l1 = Tagged::from_json(&txt).map_err(|_| ())?;
                let l2 = Tagged::from_json_direct(kind, &t0.to_json_direct().map_err(|_| ())?).map_err(|_| ())?;
                let l3 = Tagged::from_bincode(kind, &t0.to_bincode().map_err(|_| ())?).map_err(|_| ())?;
                let l3 = match l3.as_fxrates() {
                    // the binary state keeps the matrix: bring it to order one as well
                    Some(f) => {
                        let mut g = f.clone();
                        g.set_ad_order(ADOrder::One).map_err(|_| ())?;
                        Tagged::of_fxrates(g)
                    }
                    None => l3,
                };
                let (q1, q2, q3) = (query_dump(&l1, &days), query_dump(&l2, &days), query_dump(&l3, &days));
                if fx_two {
                    let close = |a: &Ints, b: &Ints| {
                        a.len() == b.len()
                            && a.iter().zip(b.iter()).all(|(x, y)| {
                                if x == y {
                                    return true;
                                }
                                let (u, v) = (i2f(*x), i2f(*y));
                                u.is_finite() && v.is_finite() && u.abs().max(v.abs()) > 1e-200 && (u - v).abs() <= 1e-12 * u.abs().max(v.abs())
                            })
                    };
                    out.extend([1, 1, 1]);
                    out.push(close(&q0, &q1) as i128);
                    out.push(close(&q0, &q2) as i128);
                    out.push(close(&q0, &q3) as i128);
                } else {
                    out.push(t.same(&l1) as i128);
                    out.push(t.same(&l2) as i128);
                    out.push(t.same(&l3) as i128);
                    out.push((q0 == q1) as i128);
                    out.push((q0 == q2) as i128);
                    out.push((q0 == q3) as i128);
                }
                // saving the loaded object again gives the same text (idempotence of the pair)
                out.push((l1.to_json().map_err(|_| ())? == txt) as i128);
                out.push(q0.len() as i128);
                let firstdiff = q0.iter().zip(q1.iter()).position(|(x, y)| x != y).map_or(-1, |p| p as i128);
                out.push(firstdiff);
                Ok(out)
            }),
        },
        // negative control of the equality the round trip is judged by: two constructed objects A, B (B = A perturbed in
        // one place by the driver): `0 same(A,B) same(B,A) same(A,A)` through the payload type's own PartialEq;
        // 1 = a constructor returned an error, 2 = abort
        "neq" => match catch_unwind(AssertUnwindSafe(|| -> Result<(Tagged, Tagged), ()> {
            let a = read_obj(&mut r)?; // (an error leaves the reader inside A: B is not read then)
            let b = read_obj(&mut r)?;
            Ok((a, b))
        })) {
            Err(_) => vec![2],
            Ok(Err(())) => vec![1],
            Ok(Ok((a, b))) => guard(|| Ok(vec![a.same(&b) as i128, b.same(&a) as i128, a.same(&a) as i128])),
        },
        // the pickle protocol of the Python-visible class, through the interpreter (hook H4):
        //   0 state_is_bincode_of_object rebuilt_equals_original queries_identical n_queries
        "pk" => match catch_unwind(AssertUnwindSafe(|| read_obj(&mut r))) {
            Err(_) => vec![2],
            Ok(Err(())) => vec![1],
            Ok(Ok(t0)) => match catch_unwind(AssertUnwindSafe(|| -> Result<Ints, ()> {
                let days = probe_days_of(&t0);
                let (bytes, back) = t0.pickle_roundtrip().map_err(|_| ())?;
                let direct = t0.to_bincode().map_err(|_| ())?;
                // an FX market is rebuilt from its quotes at AD order one on loading (also from the binary state, whose
                // reader is the same quotes-only data model): it is compared in that state, as the "rt" operation does
                let fx_two = t0.as_fxrates().is_some() && t0.shape()[2] == 2;
                let norm = |t: &Tagged| -> Result<Option<Tagged>, ()> {
                    match t.as_fxrates() {
                        Some(f) => {
                            let mut g = f.clone();
                            g.set_ad_order(ADOrder::One).map_err(|_| ())?;
                            Ok(Some(Tagged::of_fxrates(g)))
                        }
                        None => Ok(None),
                    }
                };
                let (a0, b0) = (norm(&t0)?, norm(&back)?);
                let (ta, tb) = (a0.as_ref().unwrap_or(&t0), b0.as_ref().unwrap_or(&back));
                let q0 = query_dump(ta, &days);
                let q1 = query_dump(tb, &days);
                let close = |a: &Ints, b: &Ints| {
                    a.len() == b.len()
                        && a.iter().zip(b.iter()).all(|(x, y)| {
                            if x == y {
                                return true;
                            }
                            let (u, v) = (i2f(*x), i2f(*y));
                            u.is_finite() && v.is_finite() && u.abs().max(v.abs()) > 1e-200 && (u - v).abs() <= 1e-12 * u.abs().max(v.abs())
                        })
                };
                let same = if fx_two { true } else { ta.same(tb) };
                let qsame = if fx_two { close(&q0, &q1) } else { q0 == q1 };
                Ok(vec![(bytes == direct) as i128, same as i128, qsame as i128, q0.len() as i128])
            })) {
                Ok(Ok(mut v)) => {
                    let mut out = vec![0];
                    out.append(&mut v);
                    out
                }
                Ok(Err(())) => vec![3],
                Err(_) => vec![2],
            },
        },
        // bare doubles through serde_json text: the bit pattern that comes back (-1 = error)
        "f64rt" => a
            .iter()
            .map(|b| {
                let x = i2f(*b);
                let s = serde_json::to_string(&x).unwrap();
                match serde_json::from_str::<f64>(&s) {
                    Ok(y) => f2i(y),
                    Err(_) => -1,
                }
            })
            .collect(),
        // the same through the binary state: bits after bincode round trip
        "f64bin" => a
            .iter()
            .map(|b| {
                let x = i2f(*b);
                match bincode::deserialize::<f64>(&bincode::serialize(&x).unwrap()) {
                    Ok(y) => f2i(y),
                    Err(_) => -1,
                }
            })
            .collect(),
        // ---- constructors (C20)
        "dual" => {
            let vars = read_names(&mut r);
            let re = read_f(&mut r);
            let nd = r.next() as usize;
            let du = read_fs(&mut r, nd);
            guard(|| {
                let d = Dual::try_new(re, vars, du).map_err(|_| ())?;
                Ok(vec![d.vars().len() as i128, d.dual().len() as i128])
            })
        }
        "dual2" => {
            let vars = read_names(&mut r);
            let re = read_f(&mut r);
            let nd = r.next() as usize;
            let du = read_fs(&mut r, nd);
            let ndd = r.next() as usize;
            let dd = read_fs(&mut r, ndd);
            guard(|| {
                let d = Dual2::try_new(re, vars, du, dd).map_err(|_| ())?;
                Ok(vec![
                    d.vars().len() as i128,
                    d.dual().len() as i128,
                    d.dual2().shape()[0] as i128,
                    d.dual2().shape()[1] as i128,
                ])
            })
        }
        "ccy" => {
            let s = read_name(&mut r);
            guard(|| {
                let c = Ccy::try_new(&s).map_err(|_| ())?;
                let v: serde_json::Value = serde_json::to_value(&c).map_err(|_| ())?;
                let nm = v["name"].as_str().ok_or(())?.to_string();
                let mut out = vec![];
                crate::numenc::write_name(&nm, &mut out);
                Ok(out)
            })
        }
        "fxpair" => {
            let (x, y) = (read_name(&mut r), read_name(&mut r));
            guard(|| {
                let p = FXPair::try_new(&x, &y).map_err(|_| ())?;
                let mut out = vec![];
                crate::numenc::write_name(&format!("{}", p), &mut out);
                Ok(out)
            })
        }
        "fxrate" => {
            let (x, y) = (read_name(&mut r), read_name(&mut r));
            let n = read_number(&mut r);
            guard(|| {
                FXRate::try_new(&x, &y, n, None).map_err(|_| ())?;
                Ok(vec![])
            })
        }
        "fxrates" => guard(|| {
            let f = read_fx(&mut r)?;
            let t = Tagged::of_fxrates(f);
            let mut out = vec![];
            shape_out(&t, &mut out);
            Ok(out)
        }),
        "named" => {
            let s = read_name(&mut r);
            guard(|| {
                let t = Tagged::of_named_cal(NamedCal::try_new(&s).map_err(|_| ())?);
                let mut out = vec![];
                shape_out(&t, &mut out);
                Ok(out)
            })
        }
        "calnew" => {
            let nm = r.next() as usize;
            let mask: Vec<u8> = r.take(nm).iter().map(|x| *x as u8).collect();
            guard(|| {
                let c = Cal::new(vec![], mask);
                let t = Tagged::of_cal(c);
                let mut out = vec![];
                shape_out(&t, &mut out);
                Ok(out)
            })
        }
        // csolve on PPSpline<f64>: k nt t* ntau tau* ny y* left_n right_n allow_lsq
        //   -> 0 nc c-bits* | 1 | 2     (the constructor's asserts are part of the call)
        "csolve" => {
            let k = r.next() as usize;
            let nt = r.next() as usize;
            let t = read_fs(&mut r, nt);
            let ntau = r.next() as usize;
            let tau = read_fs(&mut r, ntau);
            let ny = r.next() as usize;
            let y = read_fs(&mut r, ny);
            let (ln, rn, lsq) = (r.next() as usize, r.next() as usize, r.next() != 0);
            guard(|| {
                let mut s: PPSpline<f64> = PPSpline::new(k, t, None);
                s.csolve(&tau, &y, ln, rn, lsq).map_err(|_| ())?;
                let c = s.c().as_ref().ok_or(())?;
                let mut out = vec![c.len() as i128];
                out.extend(c.iter().map(|x| f2i(*x)));
                Ok(out)
            })
        }
        _ => vec![-1],
    }
}
