//! C09/C10: FX markets (rust/fx/rates).  Mirror of coq/theories/Run/RunFX.v.
//!   quote  = name(lhs) name(rhs) number has_settle [day number]
//!   market = nq quote* has_base [name]
//!   probes = np (name name)*
//! op `new`  : market
//!     out   : cls ; Ok -> names(currencies in index order) then n*n f64 bit patterns of rate(ci, cj)
//! op `hist` : market probes nops (op probes)*      op = 0 nq quote* | 1 order(0|1|2)
//!     out   : cls0 [snapshot] (cls_i snapshot)*    (ends after the first Panic or if cls0 != Ok)
//!     snapshot = per probe: 0 (rate() returned None) | 1 number
//! ops `newj` / `histj`: the same, on the market RESTORED FROM ITS OWN SAVED DOCUMENT (to_json -> from_json) right after
//!     construction — a freshly constructed market and its reloaded copy are the same market; a failing reload is an Err
//! A quote whose constructor (FXRate::try_new) fails makes the enclosing constructor/op an Err.
use crate::cal::Rd;
use crate::dates::from_n;
use crate::numenc::{read_name, read_number, write_name, write_number};
use crate::{f2i, Ints};
use rateslib::dual::{ADOrder, Number};
use rateslib::fx::rates::{Ccy, FXRate, FXRates};
use rateslib::json::JSON;
use std::panic::{catch_unwind, AssertUnwindSafe};

struct Quote {
    lhs: String,
    rhs: String,
    rate: Number,
    settle: Option<i128>,
}

fn read_quote(r: &mut Rd) -> Quote {
    let lhs = read_name(r);
    let rhs = read_name(r);
    let rate = read_number(r);
    let settle = if r.next() == 1 { Some(r.next()) } else { None };
    Quote { lhs, rhs, rate, settle }
}
fn read_quotes(r: &mut Rd) -> Vec<Quote> {
    let n = r.next() as usize;
    (0..n).map(|_| read_quote(r)).collect()
}
fn read_probes(r: &mut Rd) -> Vec<(String, String)> {
    let n = r.next() as usize;
    (0..n).map(|_| (read_name(r), read_name(r))).collect()
}

/// 0 = Ok, 1 = Err, 2 = Panic
fn attempt<T, F: FnOnce() -> Result<T, ()>>(f: F) -> (i128, Option<T>) {
    match catch_unwind(AssertUnwindSafe(f)) {
        Ok(Ok(v)) => (0, Some(v)),
        Ok(Err(())) => (1, None),
        Err(_) => (2, None),
    }
}

fn build_quotes(qs: &[Quote]) -> Result<Vec<FXRate>, ()> {
    let mut out = Vec::new();
    for q in qs {
        let fxr = FXRate::try_new(&q.lhs, &q.rhs, q.rate.clone(), q.settle.map(from_n)).map_err(|_| ())?;
        out.push(fxr);
    }
    Ok(out)
}

fn build_market(qs: &[Quote], base: &Option<String>) -> Result<FXRates, ()> {
    let rates = build_quotes(qs)?;
    let b = match base {
        Some(s) => Some(Ccy::try_new(s).map_err(|_| ())?),
        None => None,
    };
    FXRates::try_new(rates, b).map_err(|_| ())
}

/// the name a Ccy actually stores (its field is crate-private; it is serialisable)
fn ccy_name(c: &Ccy) -> String {
    let v: serde_json::Value = serde_json::to_value(c).expect("ccy json");
    v["name"].as_str().expect("ccy name").to_string()
}

/// currencies in index order, recovered through the public get_ccy_index
fn currency_order(fx: &FXRates, qs: &[Quote], base: &Option<String>) -> Vec<Ccy> {
    let mut seen: Vec<(usize, Ccy)> = Vec::new();
    let mut all: Vec<&String> = Vec::new();
    if let Some(b) = base {
        all.push(b);
    }
    for q in qs {
        all.push(&q.lhs);
        all.push(&q.rhs);
    }
    for s in all {
        if let Ok(c) = Ccy::try_new(s) {
            if let Some(i) = fx.get_ccy_index(&c) {
                if !seen.iter().any(|(j, _)| *j == i) {
                    seen.push((i, c));
                }
            }
        }
    }
    seen.sort_by_key(|(i, _)| *i);
    for (k, (i, _)) in seen.iter().enumerate() {
        assert_eq!(k, *i, "currency indices are not 0..n");
    }
    seen.into_iter().map(|(_, c)| c).collect()
}

fn snapshot(fx: &FXRates, probes: &[(String, String)], out: &mut Ints) {
    for (l, r) in probes {
        let got = match (Ccy::try_new(l), Ccy::try_new(r)) {
            (Ok(a), Ok(b)) => fx.rate(&a, &b),
            _ => None,
        };
        match got {
            None => out.push(0),
            Some(n) => {
                out.push(1);
                write_number(&n, out);
            }
        }
    }
}

fn read_market(r: &mut Rd) -> (Vec<Quote>, Option<String>) {
    let qs = read_quotes(r);
    let base = if r.next() == 1 { Some(read_name(r)) } else { None };
    (qs, base)
}

fn build_market_via(qs: &[Quote], base: &Option<String>, via_doc: bool) -> Result<FXRates, ()> {
    let fx = build_market(qs, base)?;
    if via_doc {
        let txt = fx.to_json().map_err(|_| ())?;
        FXRates::from_json(&txt).map_err(|_| ())
    } else {
        Ok(fx)
    }
}

fn run_new(a: &Ints, via_doc: bool) -> Ints {
    let mut r = Rd::new(a);
    let (qs, base) = read_market(&mut r);
    let (cls, fx) = attempt(|| build_market_via(&qs, &base, via_doc));
    let mut out = vec![cls];
    if let Some(fx) = fx {
        let body = catch_unwind(AssertUnwindSafe(|| {
            let mut o: Ints = Vec::new();
            let cs = currency_order(&fx, &qs, &base);
            o.push(cs.len() as i128);
            for c in cs.iter() {
                write_name(&ccy_name(c), &mut o);
            }
            for x in cs.iter() {
                for y in cs.iter() {
                    let v: f64 = f64::from(&fx.rate(x, y).expect("rate of known currencies"));
                    o.push(f2i(v));
                }
            }
            o
        }));
        match body {
            Ok(mut o) => out.append(&mut o),
            Err(_) => return vec![2],
        }
    }
    out
}

fn run_hist(a: &Ints, via_doc: bool) -> Ints {
    let mut r = Rd::new(a);
    let (qs, base) = read_market(&mut r);
    let probes0 = read_probes(&mut r);
    let nops = r.next() as usize;
    let (cls, fx) = attempt(|| build_market_via(&qs, &base, via_doc));
    let mut out = vec![cls];
    let mut fx = match fx {
        Some(f) => f,
        None => return out,
    };
    if catch_unwind(AssertUnwindSafe(|| snapshot(&fx, &probes0, &mut out))).is_err() {
        return vec![2];
    }
    for _ in 0..nops {
        let kind = r.next();
        let cls = if kind == 0 {
            let upd = read_quotes(&mut r);
            let fxm = &mut fx;
            attempt(move || {
                let rates = build_quotes(&upd)?;
                fxm.update(rates).map_err(|_| ())
            })
            .0
        } else {
            let ad = match r.next() {
                0 => ADOrder::Zero,
                1 => ADOrder::One,
                _ => ADOrder::Two,
            };
            let fxm = &mut fx;
            attempt(move || fxm.set_ad_order(ad).map_err(|_| ())).0
        };
        let probes = read_probes(&mut r);
        out.push(cls);
        if cls == 2 {
            return out;
        }
        let mut snap: Ints = Vec::new();
        if catch_unwind(AssertUnwindSafe(|| snapshot(&fx, &probes, &mut snap))).is_err() {
            out.push(2);
            return out;
        }
        out.append(&mut snap);
    }
    out
}

pub fn run(op: &str, a: &Ints) -> Ints {
    match op {
        "new" => run_new(a, false),
        "hist" => run_hist(a, false),
        "newj" => run_new(a, true),
        "histj" => run_hist(a, true),
        _ => panic!("unknown fx op"),
    }
}
