//! stub: domain `fx` (filled in by its builder)
use crate::Ints;

pub fn run(_op: &str, _a: &Ints) -> Ints {
    vec![-1]
}
