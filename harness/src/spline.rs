//! C14 / C15: B-spline basis functions and solved splines (mirror of coq/theories/Run/RunSpline.v).
//!   ev   : i k orgflag org nt t* x            -> bsplev_single_f64(x, i, k, t, org)
//!   dn   : i k m orgflag org nt t* x          -> bspldnev_single_f64(x, i, k, t, m, org)
//!   grid : k imax mmax nt t* nx x*            -> for x, for i < imax: bsplev(None), then
//!                                                bspldnev(None) for m = 0..=mmax
//! each result `0 bits` (Ok) / `1` (Err) / `2` (Panic), concatenated.
//!   pp   : kind k nt t* hasc [nc c*] dosolve [ntau tau* ny y* left_n right_n lsq] nq query*
//!          kind 0 PPSpline<f64> / 1 PPSpline<Dual> / 2 PPSpline<Dual2> (c, y encoded accordingly)
//!          query = 0 x m (ppdnev_single) | 1 X m (ppdnev_single_dual) | 2 X m (ppdnev_single_dual2)
//!                | 3 number (NumberMapping::mapped_value)
//!          output: outcome of PPSpline::new; outcome of csolve followed by the coefficients
//!          (count, values; -1 when unset); then each query as outcome + value.
//!   evd  : kind(1|2) i k orgflag org nt t* X  -> bsplev_single_dual / bsplev_single_dual2 (X a Dual / Dual2 abscissa)
//!   vec  : k i m nt t* nx x*                  -> PPSpline::<f64>::new(k, t, None).bspldnev(x, i, m): `0 n bits*` | 2
//!   mat  : k left_n right_n nt t* ntau tau*   -> PPSpline::<f64>::new(k, t, None).bsplmatrix(tau, left_n, right_n):
//!                                                `0 rows cols bits*` (row major) | 2
//!   ppeq : kind(0|1|2) A B, each = k nt t* hasc [nc c*] -> `0 (A == B) (B == A)` | 2 (a constructor aborts)
use crate::cal::Rd;
use crate::numenc::*;
use crate::{catch, f2i, Ints};
use rateslib::dual::{Dual, Dual2, NumberMapping};
use rateslib::splines::{bspldnev_single_f64, bsplev_single_dual, bsplev_single_dual2, bsplev_single_f64, PPSpline};

fn out_f(o: Option<f64>, out: &mut Ints) {
    match o {
        Some(v) => {
            out.push(0);
            out.push(f2i(v));
        }
        None => out.push(2),
    }
}

fn rd_org(r: &mut Rd) -> Option<usize> {
    let fl = r.next();
    let org = r.next() as usize;
    if fl == 1 {
        Some(org)
    } else {
        None
    }
}

fn rd_fvec(r: &mut Rd) -> Vec<f64> {
    let n = r.next() as usize;
    read_fs(r, n)
}

pub fn run(op: &str, a: &Ints) -> Ints {
    let mut r = Rd::new(a);
    let mut out: Ints = vec![];
    match op {
        "ev" => {
            let i = r.next() as usize;
            let k = r.next() as usize;
            let org = rd_org(&mut r);
            let t = rd_fvec(&mut r);
            let x = read_f(&mut r);
            out_f(catch(|| bsplev_single_f64(&x, i, &k, &t, org)), &mut out);
        }
        "dn" => {
            let i = r.next() as usize;
            let k = r.next() as usize;
            let m = r.next() as usize;
            let org = rd_org(&mut r);
            let t = rd_fvec(&mut r);
            let x = read_f(&mut r);
            out_f(catch(|| bspldnev_single_f64(&x, i, &k, &t, m, org)), &mut out);
        }
        "grid" => {
            let k = r.next() as usize;
            let imax = r.next() as usize;
            let mmax = r.next() as usize;
            let t = rd_fvec(&mut r);
            let xs = rd_fvec(&mut r);
            for x in xs.iter() {
                for i in 0..imax {
                    out_f(catch(|| bsplev_single_f64(x, i, &k, &t, None)), &mut out);
                    for m in 0..=mmax {
                        out_f(catch(|| bspldnev_single_f64(x, i, &k, &t, m, None)), &mut out);
                    }
                }
            }
        }
        "pp" => return pp(&mut r),
        "evd" => {
            let kind = r.next();
            let i = r.next() as usize;
            let k = r.next() as usize;
            let org = rd_org(&mut r);
            let t = rd_fvec(&mut r);
            if kind == 1 {
                let x = read_dual(&mut r);
                match catch(|| bsplev_single_dual(&x, i, &k, &t, org)) {
                    Some(d) => {
                        out.push(0);
                        write_dual(&d, &mut out);
                    }
                    None => out.push(2),
                }
            } else {
                let x = read_dual2(&mut r);
                match catch(|| bsplev_single_dual2(&x, i, &k, &t, org)) {
                    Some(d) => {
                        out.push(0);
                        write_dual2(&d, &mut out);
                    }
                    None => out.push(2),
                }
            }
        }
        "vec" => {
            let k = r.next() as usize;
            let i = r.next() as usize;
            let m = r.next() as usize;
            let t = rd_fvec(&mut r);
            let xs = rd_fvec(&mut r);
            match catch(|| {
                let s: PPSpline<f64> = PPSpline::new(k, t.clone(), None);
                s.bspldnev(&xs, &i, &m)
            }) {
                Some(v) => {
                    out.push(0);
                    out.push(v.len() as i128);
                    out.extend(v.iter().map(|x| f2i(*x)));
                }
                None => out.push(2),
            }
        }
        "mat" => {
            let k = r.next() as usize;
            let ln = r.next() as usize;
            let rn = r.next() as usize;
            let t = rd_fvec(&mut r);
            let tau = rd_fvec(&mut r);
            match catch(|| {
                let s: PPSpline<f64> = PPSpline::new(k, t.clone(), None);
                s.bsplmatrix(&tau, ln, rn)
            }) {
                Some(b) => {
                    out.push(0);
                    out.push(b.nrows() as i128);
                    out.push(b.ncols() as i128);
                    for j in 0..b.nrows() {
                        for i in 0..b.ncols() {
                            out.push(f2i(b[[j, i]]));
                        }
                    }
                }
                None => out.push(2),
            }
        }
        "ppeq" => return ppeq(&mut r),
        _ => return vec![-1],
    }
    out
}

// ------------------------------------------------------------------------------------------ C15

fn write_f(x: &f64, out: &mut Ints) {
    out.push(f2i(*x));
}

/// Ok(v) -> 0 payload, Err(PyErr) -> 1, panic -> 2
fn out_res<A, F: FnOnce() -> Result<A, pyo3::PyErr>, W: Fn(&A, &mut Ints)>(f: F, w: W, out: &mut Ints) {
    match catch(f) {
        Some(Ok(v)) => {
            out.push(0);
            w(&v, out);
        }
        Some(Err(_)) => out.push(1),
        None => out.push(2),
    }
}

macro_rules! session {
    ($r:expr, $ty:ty, $rd:expr, $wr:expr) => {{
        let r: &mut Rd = $r;
        let mut out: Ints = vec![];
        let k = r.next() as usize;
        let t = rd_fvec(r);
        let hasc = r.next();
        let c: Option<Vec<$ty>> = if hasc == 1 {
            let nc = r.next() as usize;
            Some((0..nc).map(|_| $rd(r)).collect())
        } else {
            None
        };
        let dosolve = r.next();
        let mut s: PPSpline<$ty> = match catch(|| PPSpline::new(k, t.clone(), c.clone())) {
            Some(s) => s,
            None => return vec![2],
        };
        out.push(0);
        if dosolve == 1 {
            let tau = rd_fvec(r);
            let ny = r.next() as usize;
            let y: Vec<$ty> = (0..ny).map(|_| $rd(r)).collect();
            let ln = r.next() as usize;
            let rn = r.next() as usize;
            let lsq = r.next() == 1;
            let mut s2 = s.clone();
            match catch(|| {
                let res = s2.csolve(&tau, &y, ln, rn, lsq);
                (res, s2)
            }) {
                Some((Ok(()), snew)) => {
                    out.push(0);
                    match snew.c() {
                        Some(c) => {
                            out.push(c.len() as i128);
                            for v in c.iter() {
                                $wr(v, &mut out);
                            }
                        }
                        None => out.push(-1),
                    }
                    s = snew;
                }
                Some((Err(_), _)) => out.push(1),
                None => out.push(2),
            }
        }
        let nq = r.next() as usize;
        for _ in 0..nq {
            match r.next() {
                0 => {
                    let x = read_f(r);
                    let m = r.next() as usize;
                    out_res(|| s.ppdnev_single(&x, m), |v, o| $wr(v, o), &mut out);
                }
                1 => {
                    let x = read_dual(r);
                    let m = r.next() as usize;
                    out_res(|| s.ppdnev_single_dual(&x, m), |v, o| write_dual(v, o), &mut out);
                }
                2 => {
                    let x = read_dual2(r);
                    let m = r.next() as usize;
                    out_res(|| s.ppdnev_single_dual2(&x, m), |v, o| write_dual2(v, o), &mut out);
                }
                3 => {
                    let x = read_number(r);
                    out_res(|| s.mapped_value(&x), |v, o| write_number(v, o), &mut out);
                }
                _ => {
                    out.push(-1);
                    break;
                }
            }
        }
        out
    }};
}

fn pp(r: &mut Rd) -> Ints {
    match r.next() {
        0 => session!(r, f64, |r: &mut Rd| read_f(r), |v: &f64, o: &mut Ints| write_f(v, o)),
        1 => session!(r, Dual, |r: &mut Rd| read_dual(r), |v: &Dual, o: &mut Ints| write_dual(v, o)),
        2 => session!(r, Dual2, |r: &mut Rd| read_dual2(r), |v: &Dual2, o: &mut Ints| write_dual2(v, o)),
        _ => vec![-1],
    }
}

// ------------------------------------------------------------------------------------------ ==
macro_rules! rd_pp {
    ($r:expr, $ty:ty, $rd:expr) => {{
        let r: &mut Rd = $r;
        let k = r.next() as usize;
        let t = rd_fvec(r);
        let hasc = r.next();
        let c: Option<Vec<$ty>> = if hasc == 1 {
            let nc = r.next() as usize;
            Some((0..nc).map(|_| $rd(r)).collect())
        } else {
            None
        };
        catch(|| PPSpline::<$ty>::new(k, t, c))
    }};
}
macro_rules! ppeq_kind {
    ($r:expr, $ty:ty, $rd:expr) => {{
        let a = rd_pp!($r, $ty, $rd);
        let b = rd_pp!($r, $ty, $rd);
        match (a, b) {
            (Some(a), Some(b)) => match catch(|| (a == b, b == a)) {
                Some((x, y)) => vec![0, x as i128, y as i128],
                None => vec![2],
            },
            _ => vec![2],
        }
    }};
}
fn ppeq(r: &mut Rd) -> Ints {
    match r.next() {
        0 => ppeq_kind!(r, f64, |r: &mut Rd| read_f(r)),
        1 => ppeq_kind!(r, Dual, |r: &mut Rd| read_dual(r)),
        2 => ppeq_kind!(r, Dual2, |r: &mut Rd| read_dual2(r)),
        _ => vec![-1],
    }
}
