//! Shared integer encoding of names, floats, Dual, Dual2 and Number (see coq/theories/Run/RunNum.v):
//!   name   = len cp*            float = IEEE-754 bits (u64)
//!   dual   = nvars name* re du*(nvars)              (built with Dual::try_new: vars de-duplicated)
//!   dual2  = nvars name* re du*(nvars) dd*(nvars^2)  (row major)
//!   number = kind(0 f64 | 1 dual | 2 dual2) payload
use crate::cal::Rd;
use crate::{f2i, i2f, Ints};
use rateslib::dual::{Dual, Dual2, Gradient1, Gradient2, Number, Vars};

pub fn read_name(r: &mut Rd) -> String {
    let n = r.next() as usize;
    r.take(n).iter().map(|c| char::from_u32(*c as u32).unwrap()).collect()
}
pub fn read_names(r: &mut Rd) -> Vec<String> {
    let n = r.next() as usize;
    (0..n).map(|_| read_name(r)).collect()
}
pub fn read_f(r: &mut Rd) -> f64 {
    i2f(r.next())
}
pub fn read_fs(r: &mut Rd, n: usize) -> Vec<f64> {
    (0..n).map(|_| read_f(r)).collect()
}
/// HOW the encoded numbers are constructed (environment variable RL_PRESENT, read once):
///   0 (default)  Dual::try_new / Dual2::try_new
///   1            T::try_new_from(&other, ..) where `other` lists the same names in ANOTHER ORDER (the first two exchanged, the last kept; two names: swapped) -
///                the sibling constructor behind the Python `vars_from`; by name it is the same number
///   2            as 0, and the binary operators of the Number container (dual op 12) get operands that SHARE one variable list
pub fn present() -> u8 {
    static P: std::sync::OnceLock<u8> = std::sync::OnceLock::new();
    *P.get_or_init(|| std::env::var("RL_PRESENT").ok().and_then(|s| s.parse().ok()).unwrap_or(0))
}
fn rotated(vars: &[String]) -> Vec<String> {
    let mut seen: Vec<String> = vec![];
    for v in vars {
        if !seen.contains(v) {
            seen.push(v.clone());
        }
    }
    if seen.len() >= 3 {
        seen.swap(0, 1); // another order with the LAST name kept in place
    } else if seen.len() == 2 {
        seen.rotate_left(1);
    }
    seen
}
/// well-formed by construction: panics (harness bug) if the encoded shapes are inconsistent
pub fn read_dual(r: &mut Rd) -> Dual {
    let vars = read_names(r);
    let re = read_f(r);
    let n = vars.len();
    let du = read_fs(r, n);
    if n == 0 {
        return Dual::new(re, vec![]);
    }
    if present() == 1 {
        let other = Dual::new(0.0, rotated(&vars));
        return Dual::try_new_from(&other, re, vars, du).expect("read_dual (try_new_from)");
    }
    Dual::try_new(re, vars, du).expect("read_dual")
}
pub fn read_dual2(r: &mut Rd) -> Dual2 {
    let vars = read_names(r);
    let re = read_f(r);
    let n = vars.len();
    let du = read_fs(r, n);
    let dd = read_fs(r, n * n);
    if n == 0 {
        return Dual2::new(re, vec![]);
    }
    if present() == 1 {
        let other = Dual2::new(0.0, rotated(&vars));
        return Dual2::try_new_from(&other, re, vars, du, dd).expect("read_dual2 (try_new_from)");
    }
    // try_new treats an empty/all-absent dual2 as zeros; pass the explicit array
    Dual2::try_new(re, vars, du, dd).expect("read_dual2")
}
pub fn read_number(r: &mut Rd) -> Number {
    match r.next() {
        0 => Number::F64(read_f(r)),
        1 => Number::Dual(read_dual(r)),
        2 => Number::Dual2(read_dual2(r)),
        _ => panic!("bad number kind"),
    }
}

pub fn write_name(s: &str, out: &mut Ints) {
    let cps: Vec<i128> = s.chars().map(|c| c as u32 as i128).collect();
    out.push(cps.len() as i128);
    out.extend(cps);
}
pub fn write_names<'a, I: Iterator<Item = &'a String>>(it: I, out: &mut Ints) {
    let v: Vec<&String> = it.collect();
    out.push(v.len() as i128);
    for s in v {
        write_name(s, out);
    }
}
pub fn write_dual(d: &Dual, out: &mut Ints) {
    write_names(d.vars().iter(), out);
    out.push(f2i(d.real()));
    out.push(d.dual().len() as i128);
    out.extend(d.dual().iter().map(|x| f2i(*x)));
}
pub fn write_dual2(d: &Dual2, out: &mut Ints) {
    write_names(d.vars().iter(), out);
    out.push(f2i(d.real()));
    out.push(d.dual().len() as i128);
    out.extend(d.dual().iter().map(|x| f2i(*x)));
    let sh = d.dual2().shape().to_vec();
    out.push(sh[0] as i128);
    out.push(sh[1] as i128);
    out.extend(d.dual2().iter().map(|x| f2i(*x)));
}
/// output form: kind, then the written dual/dual2/float
pub fn write_number(n: &Number, out: &mut Ints) {
    match n {
        Number::F64(f) => {
            out.push(0);
            out.push(f2i(*f));
        }
        Number::Dual(d) => {
            out.push(1);
            write_dual(d, out);
        }
        Number::Dual2(d) => {
            out.push(2);
            write_dual2(d, out);
        }
    }
}
