//! C08: month arithmetic, roll days, and the chrono functions the model replaces.
use crate::{guard, Ints};
use chrono::prelude::*;
use chrono::Days;
use rateslib::calendars::{
    get_eom, get_imm, get_roll, is_eom, is_imm, is_leap_year, Cal, CalType, DateRoll, Modifier, NamedCal, RollDay, UnionCal,
};

pub fn epoch() -> NaiveDateTime {
    NaiveDate::from_ymd_opt(1970, 1, 1).unwrap().and_hms_opt(0, 0, 0).unwrap()
}
pub fn from_n(n: i128) -> NaiveDateTime {
    if n >= 0 {
        epoch() + Days::new(n as u64)
    } else {
        epoch() - Days::new((-n) as u64)
    }
}
pub fn to_n(d: &NaiveDateTime) -> i128 {
    let secs = d.and_utc().timestamp() as i128;
    assert!(secs.rem_euclid(86400) == 0);
    secs.div_euclid(86400)
}
pub fn rollday(kind: i128, day: i128) -> RollDay {
    match kind {
        0 => RollDay::Unspecified {},
        1 => RollDay::Int { day: day as u32 },
        2 => RollDay::EoM {},
        3 => RollDay::SoM {},
        _ => RollDay::IMM {},
    }
}

pub fn run(op: &str, a: &Ints) -> Ints {
    match op {
        // chrono: fields of day number n
        "civil" => {
            let d = from_n(a[0]);
            vec![d.year() as i128, d.month() as i128, d.day() as i128, d.weekday().num_days_from_monday() as i128]
        }
        // chrono: from_ymd_opt
        "ymd" => match NaiveDate::from_ymd_opt(a[0] as i32, a[1] as u32, a[2] as u32) {
            Some(d) => vec![1, to_n(&d.and_hms_opt(0, 0, 0).unwrap())],
            None => vec![0],
        },
        // add_months with Modifier::Act on a calendar without holidays
        // a[4] (optional, default 0): WHICH implementor of DateRoll the month arithmetic is asked of - every one of them is an
        // always-open calendar, so the answer is the same: 0 Cal, 1 UnionCal, 2 NamedCal("all"), 3 CalType::Cal,
        // 4 CalType::UnionCal, 5 CalType::NamedCal
        "addm" => guard(|| {
            let cal = Cal::new(vec![], vec![]);
            let d = from_n(a[0]);
            let (k, m, rd) = (a[1] as i32, Modifier::Act, rollday(a[2], a[3]));
            let r = match a.get(4).copied().unwrap_or(0) {
                1 => UnionCal::new(vec![cal], None).add_months(&d, k, &m, &rd, false),
                2 => NamedCal::try_new("all").map_err(|_| ())?.add_months(&d, k, &m, &rd, false),
                3 => CalType::Cal(cal).add_months(&d, k, &m, &rd, false),
                4 => CalType::UnionCal(UnionCal::new(vec![cal], None)).add_months(&d, k, &m, &rd, false),
                5 => CalType::NamedCal(NamedCal::try_new("all").map_err(|_| ())?).add_months(&d, k, &m, &rd, false),
                _ => cal.add_months(&d, k, &m, &rd, false),
            };
            Ok(vec![to_n(&r)])
        }),
        "roll" => guard(|| match get_roll(a[0] as i32, a[1] as u32, &rollday(a[2], a[3])) {
            Ok(d) => Ok(vec![to_n(&d)]),
            Err(_) => Err(()),
        }),
        "imm" => guard(|| Ok(vec![to_n(&get_imm(a[0] as i32, a[1] as u32))])),
        // a SEQUENCE of IMM look-ups in one process, one after the other (a[0] = count, then year month pairs): whatever was asked
        // before must not matter
        "immseq" => guard(|| {
            let n = a[0] as usize;
            Ok((0..n).map(|i| to_n(&get_imm(a[1 + 2 * i] as i32, a[2 + 2 * i] as u32))).collect())
        }),
        "eom" => guard(|| Ok(vec![to_n(&get_eom(a[0] as i32, a[1] as u32))])),
        "isimm" => guard(|| Ok(vec![is_imm(&from_n(a[0])) as i128])),
        "iseom" => guard(|| Ok(vec![is_eom(&from_n(a[0])) as i128])),
        "leap" => vec![is_leap_year(a[0] as i32) as i128],
        // ranges (one line = many evaluations)
        "civilr" => {
            let mut out = vec![];
            for n in a[0]..a[0] + a[1] {
                out.extend(run("civil", &vec![n]));
            }
            vec![crate::hash(&out)]
        }
        "ymdr" => {
            let mut out = vec![];
            for m in 0..14 {
                for d in 0..33 {
                    match NaiveDate::from_ymd_opt(a[0] as i32, m, d) {
                        Some(x) => out.push(to_n(&x.and_hms_opt(0, 0, 0).unwrap())),
                        None => out.push(-1000000),
                    }
                }
            }
            vec![crate::hash(&out)]
        }
        "monthr" => {
            // every roll-day function on every month of year a[0]
            let mut out = vec![];
            for m in 1..13 {
                out.extend(run("imm", &vec![a[0], m]));
                out.extend(run("eom", &vec![a[0], m]));
                for (rk, rd) in [(1, 1), (1, 27), (1, 28), (1, 29), (1, 30), (1, 31), (1, 32), (1, 33), (2, 0), (3, 0), (4, 0), (0, 0)] {
                    out.extend(run("roll", &vec![a[0], m, rk, rd]));
                }
            }
            out.extend(run("leap", &vec![a[0]]));
            vec![crate::hash(&out)]
        }
        "addmr" => {
            let mut out = vec![];
            for k in a[1]..a[1] + a[2] {
                let r = run("addm", &vec![a[0], k, a[3], a[4], a.get(5).copied().unwrap_or(0)]);
                out.push(if r[0] == 0 { r[1] } else { -1000000 - r[0] });
            }
            vec![crate::hash(&out)]
        }
        _ => panic!("unknown op"),
    }
}
