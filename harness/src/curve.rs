//! C11 / C12: curves.  Mirror of coq/theories/Run/RunCurve.v (same case encoding, same output).
//!
//! case = op ...
//!   0 lcflag lc n f64bits*n v        index_left on floats  (hook index_left_f64)      -> outcome idx
//!   1 lcflag lc n k*n v              index_left on i64                               -> outcome idx
//!   2 n f64bits*n q v*q              many look-ups on one float list                 -> idx* (-2 = abort)
//!   10 path rule ad idlen id* hasbase base n (key_ns number)*n nact act*
//!        path 0: CurveDF::try_new on `Nodes` of the kind given by `ad` (every value of that kind)
//!        path 1: the Python-facing Curve(nodes, interpolator, ad, id, ...) (values of any kind)
//!        path 2: as path 0, then saved with to_json, the node entries of the document re-written in SUPPLY order,
//!                and loaded again with from_json (a third way of supplying nodes in any order)
//!      act = 0 x            interpolated_value(x)            -> outcome number
//!            1 x            node_index(x)                    -> outcome idx        (path 0 only)
//!            2 o            set_ad_order(o)                  -> outcome (nothing)
//!            3              ad()                             -> order
//!            4              nodes                            -> n (key number)*
//!            5 x            index_value(x)                   -> outcome number
//!            6 x nn name*   interpolated_value(x), then gradient1(names) (+ gradient2(names))
//!      x = timestamp in seconds, key_ns = datetime in nanoseconds since the epoch
//! output floats are written as 2^64 + IEEE bits so that the driver can compare them with a tolerance.
use crate::cal::Rd;
use rateslib::json::JSON;
use crate::numenc::{read_name, read_names, read_number};
use crate::{guard, Ints};
use chrono::{DateTime, NaiveDateTime};
use indexmap::IndexMap;
use rateslib::calendars::{Convention, Modifier, NamedCal};
use rateslib::curves::{
    CurveDF, FlatBackwardInterpolator, FlatForwardInterpolator, LinearInterpolator,
    LinearZeroRateInterpolator, LogLinearInterpolator, Nodes, NullInterpolator,
};
use rateslib::dual::{ADOrder, Dual, Dual2, Gradient1, Gradient2, Number, Vars};
use rateslib::verif_hooks as hk;

const FMARK: i128 = 1i128 << 64;

fn wf(x: f64, out: &mut Ints) {
    out.push(FMARK + x.to_bits() as i128);
}
fn wname(s: &str, out: &mut Ints) {
    let cps: Vec<i128> = s.chars().map(|c| c as u32 as i128).collect();
    out.push(cps.len() as i128);
    out.extend(cps);
}
fn wnames<'a, I: Iterator<Item = &'a String>>(it: I, out: &mut Ints) {
    let v: Vec<&String> = it.collect();
    out.push(v.len() as i128);
    for s in v {
        wname(s, out);
    }
}
fn wdual(d: &Dual, out: &mut Ints) {
    wnames(d.vars().iter(), out);
    wf(d.real(), out);
    out.push(d.dual().len() as i128);
    for x in d.dual().iter() {
        wf(*x, out);
    }
}
fn wdual2(d: &Dual2, out: &mut Ints) {
    wnames(d.vars().iter(), out);
    wf(d.real(), out);
    out.push(d.dual().len() as i128);
    for x in d.dual().iter() {
        wf(*x, out);
    }
    let sh = d.dual2().shape().to_vec();
    out.push(sh[0] as i128);
    out.push(sh[1] as i128);
    for x in d.dual2().iter() {
        wf(*x, out);
    }
}
fn wnumber(n: &Number, out: &mut Ints) {
    match n {
        Number::F64(f) => {
            out.push(0);
            wf(*f, out);
        }
        Number::Dual(d) => {
            out.push(1);
            wdual(d, out);
        }
        Number::Dual2(d) => {
            out.push(2);
            wdual2(d, out);
        }
    }
}

fn ndt_ns(k: i128) -> NaiveDateTime {
    let secs = k.div_euclid(1_000_000_000) as i64;
    let nanos = k.rem_euclid(1_000_000_000) as u32;
    DateTime::from_timestamp(secs, nanos).expect("datetime range").naive_utc()
}
fn ndt_s(x: i128) -> NaiveDateTime {
    DateTime::from_timestamp(x as i64, 0).expect("datetime range").naive_utc()
}
fn ns_of(d: &NaiveDateTime) -> i128 {
    let u = d.and_utc();
    u.timestamp() as i128 * 1_000_000_000 + u.timestamp_subsec_nanos() as i128
}
fn adorder(o: i128) -> ADOrder {
    match o {
        0 => ADOrder::Zero,
        1 => ADOrder::One,
        _ => ADOrder::Two,
    }
}
fn ad_int(a: ADOrder) -> i128 {
    match a {
        ADOrder::Zero => 0,
        ADOrder::One => 1,
        ADOrder::Two => 2,
    }
}

enum AnyCurve {
    LL(CurveDF<LogLinearInterpolator, NamedCal>),
    L(CurveDF<LinearInterpolator, NamedCal>),
    LZ(CurveDF<LinearZeroRateInterpolator, NamedCal>),
    FF(CurveDF<FlatForwardInterpolator, NamedCal>),
    FB(CurveDF<FlatBackwardInterpolator, NamedCal>),
    N(CurveDF<NullInterpolator, NamedCal>),
    Py(hk::PyCurve),
}

macro_rules! on_df {
    ($c:expr, $v:ident => $body:expr, $py:ident => $pybody:expr) => {
        match $c {
            AnyCurve::LL($v) => $body,
            AnyCurve::L($v) => $body,
            AnyCurve::LZ($v) => $body,
            AnyCurve::FF($v) => $body,
            AnyCurve::FB($v) => $body,
            AnyCurve::N($v) => $body,
            AnyCurve::Py($py) => $pybody,
        }
    };
}

const RULES: [&str; 6] = ["log_linear", "linear", "linear_zero_rate", "flat_forward", "flat_backward", "null"];

fn build_df(rule: i128, nodes: Nodes, id: &str, base: Option<f64>) -> AnyCurve {
    let cal = NamedCal::try_new("all").unwrap();
    let (cv, md) = (Convention::Act365F, Modifier::ModF);
    match rule {
        0 => AnyCurve::LL(CurveDF::try_new(nodes, LogLinearInterpolator::new(), id, cv, md, base, cal).unwrap()),
        1 => AnyCurve::L(CurveDF::try_new(nodes, LinearInterpolator::new(), id, cv, md, base, cal).unwrap()),
        2 => AnyCurve::LZ(CurveDF::try_new(nodes, LinearZeroRateInterpolator::new(), id, cv, md, base, cal).unwrap()),
        3 => AnyCurve::FF(CurveDF::try_new(nodes, FlatForwardInterpolator::new(), id, cv, md, base, cal).unwrap()),
        4 => AnyCurve::FB(CurveDF::try_new(nodes, FlatBackwardInterpolator::new(), id, cv, md, base, cal).unwrap()),
        _ => AnyCurve::N(CurveDF::try_new(nodes, NullInterpolator::new(), id, cv, md, base, cal).unwrap()),
    }
}

/// the entries of the node map of a curve document, re-written in the order `order` (timestamps in seconds)
fn reorder_nodes_text(txt: &str, order: &[i64]) -> String {
    let start = txt.find("\"nodes\":{").expect("nodes") + "\"nodes\":{".len();
    // skip the variant tag `"F64":{`
    let open = start + txt[start..].find('{').expect("variant") + 1;
    let bytes = txt.as_bytes();
    let (mut depth, mut i, mut in_str, mut esc) = (1i32, open, false, false);
    let mut cuts = vec![open];
    while i < bytes.len() && depth > 0 {
        let c = bytes[i] as char;
        if in_str {
            if esc {
                esc = false;
            } else if c == '\\' {
                esc = true;
            } else if c == '"' {
                in_str = false;
            }
        } else {
            match c {
                '"' => in_str = true,
                '{' | '[' => depth += 1,
                '}' | ']' => depth -= 1,
                ',' if depth == 1 => cuts.push(i + 1),
                _ => {}
            }
        }
        i += 1;
    }
    let close = i - 1;
    cuts.push(close + 1);
    let mut entries: Vec<(i64, String)> = vec![];
    for w in cuts.windows(2) {
        let e = txt[w[0]..w[1] - 1].to_string();
        if e.trim().is_empty() {
            continue;
        }
        let key: i64 = e[e.find('"').unwrap() + 1..e[1..].find('"').unwrap() + 1].parse().expect("node key");
        entries.push((key, e));
    }
    let mut outv: Vec<String> = vec![];
    for k in order {
        if let Some(p) = entries.iter().position(|(kk, _)| kk == k) {
            outv.push(entries.remove(p).1);
        }
    }
    outv.extend(entries.into_iter().map(|(_, e)| e));
    format!("{}{}{}", &txt[..open], outv.join(","), &txt[close..])
}

macro_rules! reload_in_order {
    ($c:expr, $order:expr, $($v:ident => $t:ty),*) => {
        match $c {
            $(AnyCurve::$v(d) => {
                let txt = d.to_json().map_err(|_| ())?;
                let c2: CurveDF<$t, NamedCal> = JSON::from_json(&reorder_nodes_text(&txt, $order)).map_err(|_| ())?;
                Ok(AnyCurve::$v(c2))
            })*
            AnyCurve::Py(_) => Err(()),
        }
    };
}

fn value_with_grads(v: &Number, names: &[String], out: &mut Ints) {
    wnumber(v, out);
    match v {
        Number::F64(_) => {}
        Number::Dual(d) => {
            let g = d.gradient1(names.to_vec());
            out.push(g.len() as i128);
            for x in g.iter() {
                wf(*x, out);
            }
        }
        Number::Dual2(d) => {
            let g = d.gradient1(names.to_vec());
            out.push(g.len() as i128);
            for x in g.iter() {
                wf(*x, out);
            }
            let h = d.gradient2(names.to_vec());
            let sh = h.shape().to_vec();
            out.push(sh[0] as i128);
            out.push(sh[1] as i128);
            for x in h.iter() {
                wf(*x, out);
            }
        }
    }
}

fn run_curve(r: &mut Rd) -> Ints {
    let path = r.next();
    let rule = r.next();
    let ad = r.next();
    let id = read_name(r);
    let hasbase = r.next();
    let base_bits = r.next();
    let base = if hasbase != 0 { Some(crate::i2f(base_bits)) } else { None };
    let n = r.next() as usize;
    let mut raw: Vec<(NaiveDateTime, Number)> = Vec::with_capacity(n);
    for _ in 0..n {
        let k = r.next();
        let v = read_number(r);
        raw.push((ndt_ns(k), v));
    }
    let mut out: Ints = vec![];
    // construction
    let built = crate::catch(|| -> Result<AnyCurve, ()> {
        if path == 0 || path == 2 {
            let nodes = match ad {
                0 => Nodes::F64(IndexMap::from_iter(raw.iter().map(|(k, v)| (*k, f64::from(v))))),
                1 => Nodes::Dual(IndexMap::from_iter(raw.iter().map(|(k, v)| {
                    (*k, match v {
                        Number::Dual(d) => d.clone(),
                        _ => panic!("harness: kind mismatch"),
                    })
                }))),
                _ => Nodes::Dual2(IndexMap::from_iter(raw.iter().map(|(k, v)| {
                    (*k, match v {
                        Number::Dual2(d) => d.clone(),
                        _ => panic!("harness: kind mismatch"),
                    })
                }))),
            };
            let built = build_df(rule, nodes, &id, base);
            if path == 2 {
                let order: Vec<i64> = raw.iter().map(|(k, _)| k.and_utc().timestamp()).collect();
                return reload_in_order!(built, &order, LL => LogLinearInterpolator, L => LinearInterpolator,
                    LZ => LinearZeroRateInterpolator, FF => FlatForwardInterpolator, FB => FlatBackwardInterpolator,
                    N => NullInterpolator);
            }
            Ok(built)
        } else {
            match hk::curve_new(raw.clone(), RULES[rule as usize], adorder(ad), &id, base) {
                Ok(c) => Ok(AnyCurve::Py(c)),
                Err(_) => Err(()),
            }
        }
    });
    let mut c = match built {
        Some(Ok(c)) => {
            out.push(0);
            c
        }
        Some(Err(())) => return vec![1],
        None => return vec![2],
    };
    let nact = r.next() as usize;
    for _ in 0..nact {
        let a = r.next();
        match a {
            0 => {
                let x = r.next();
                out.extend(guard(|| {
                    let v = on_df!(&c, d => Ok(d.interpolated_value(&ndt_s(x))), p => hk::curve_value(p, ndt_s(x)))
                        .map_err(|_: String| ())?;
                    let mut o = vec![];
                    wnumber(&v, &mut o);
                    Ok(o)
                }));
            }
            1 => {
                let x = r.next();
                out.extend(on_df!(&c, d => guard(|| Ok(vec![d.node_index(x as i64) as i128])), _p => vec![-1]));
            }
            2 => {
                let o = r.next();
                out.extend(guard(|| {
                    on_df!(&mut c, d => d.set_ad_order(adorder(o)).map_err(|_| ()), p => hk::curve_set_ad_order(p, adorder(o)).map_err(|_| ()))?;
                    Ok(vec![])
                }));
            }
            3 => {
                out.extend(guard(|| {
                    let a = on_df!(&c, d => Ok(d.ad()), p => hk::curve_ad(p)).map_err(|_: String| ())?;
                    Ok(vec![ad_int(a)])
                }));
            }
            4 => {
                out.extend(guard(|| {
                    let nodes: Vec<(i128, Number)> = on_df!(&c,
                        d => Ok(hk::curvedf_nodes(d).into_iter().map(|(k, v)| (k as i128 * 1_000_000_000, v)).collect()),
                        p => hk::curve_nodes(p).map(|v| v.into_iter().map(|(k, v)| (ns_of(&k), v)).collect()))
                    .map_err(|_: String| ())?;
                    let mut o = vec![nodes.len() as i128];
                    for (k, v) in nodes.iter() {
                        o.push(*k);
                        wnumber(v, &mut o);
                    }
                    Ok(o)
                }));
            }
            5 => {
                let x = r.next();
                out.extend(guard(|| {
                    let v = on_df!(&c, d => d.index_value(&ndt_s(x)).map_err(|e| e.to_string()), p => hk::curve_index_value(p, ndt_s(x)))
                        .map_err(|_: String| ())?;
                    let mut o = vec![];
                    wnumber(&v, &mut o);
                    Ok(o)
                }));
            }
            6 => {
                let x = r.next();
                let names = read_names(r);
                out.extend(guard(|| {
                    let v = on_df!(&c, d => Ok(d.interpolated_value(&ndt_s(x))), p => hk::curve_value(p, ndt_s(x)))
                        .map_err(|_: String| ())?;
                    let mut o = vec![];
                    value_with_grads(&v, &names, &mut o);
                    Ok(o)
                }));
            }
            _ => panic!("bad action"),
        }
    }
    out
}

pub fn run(_op: &str, a: &Ints) -> Ints {
    let mut r = Rd::new(a);
    match r.next() {
        0 => {
            let lcf = r.next();
            let lc = r.next();
            let n = r.next() as usize;
            let l: Vec<f64> = r.take(n).iter().map(|b| crate::i2f(*b)).collect();
            let v = crate::i2f(r.next());
            let lco = if lcf != 0 { Some(lc as usize) } else { None };
            guard(|| Ok(vec![hk::index_left_f64(&l, v, lco) as i128]))
        }
        1 => {
            let lcf = r.next();
            let lc = r.next();
            let n = r.next() as usize;
            let l: Vec<i64> = r.take(n).iter().map(|b| *b as i64).collect();
            let v = r.next() as i64;
            let lco = if lcf != 0 { Some(lc as usize) } else { None };
            guard(|| Ok(vec![hk::index_left_i64(&l, v, lco) as i128]))
        }
        2 => {
            let n = r.next() as usize;
            let l: Vec<f64> = r.take(n).iter().map(|b| crate::i2f(*b)).collect();
            let q = r.next() as usize;
            let mut out = vec![];
            for _ in 0..q {
                let v = crate::i2f(r.next());
                match crate::catch(|| hk::index_left_f64(&l, v, None)) {
                    Some(i) => out.push(i as i128),
                    None => out.push(-2),
                }
            }
            out
        }
        10 => run_curve(&mut r),
        _ => vec![-1],
    }
}
