//! C04/C05/C06/C20: calendars.  Case = `<calendar encoding> <op> <args>` (all integers).
//! calendar encoding: kind, then
//!   kind 0 Cal / 3 CalType::Cal      : <cal>
//!   kind 1 UnionCal / 2 CalType::UnionCal : ncals <cal>* has_settle [nsettle <cal>*]
//!   kind 4 NamedCal / 5 CalType::NamedCal : len <char codes>
//!   kind 14 / 15 : as 4 / 5, the named calendar loaded from a document {"name": <the caller's spelling>}
//!   kind 10 / 11 / 12 / 13 : as 0 / 1 / 2 / 3 with every member calendar restored from a saved document that lists the
//!                            holidays in supply order (the Deserialize path instead of the constructor)
//!   <cal> = nmask mask* nhols hols*
use crate::dates::{from_n, rollday, to_n};
use crate::{guard, hash, Ints};
use rateslib::calendars::{Cal, CalType, DateRoll, Modifier, NamedCal, UnionCal};

pub struct Rd<'a> {
    pub a: &'a Ints,
    pub i: usize,
}
impl<'a> Rd<'a> {
    pub fn new(a: &'a Ints) -> Self {
        Rd { a, i: 0 }
    }
    pub fn next(&mut self) -> i128 {
        let v = self.a[self.i];
        self.i += 1;
        v
    }
    pub fn take(&mut self, n: usize) -> Vec<i128> {
        let v = self.a[self.i..self.i + n].to_vec();
        self.i += n;
        v
    }
    pub fn rest(&mut self) -> Vec<i128> {
        let v = self.a[self.i..].to_vec();
        self.i = self.a.len();
        v
    }
}

pub enum AnyCal {
    C(Cal),
    U(UnionCal),
    N(NamedCal),
    T(CalType),
}

/// The calendar RESTORED FROM A SAVED DOCUMENT that lists the holidays in the order they were supplied (no duplicates):
/// the serde form of `Cal::new(hols, mask)` with its holiday array rewritten, read back through `Deserialize`.
/// Falls back to the constructed calendar when the saved form has no `holidays` array (a different document layout).
fn cal_from_doc(hols: &[chrono::NaiveDateTime], c: Cal) -> Cal {
    let mut v = match serde_json::to_value(&c) {
        Ok(v) => v,
        Err(_) => return c,
    };
    let mut seen = std::collections::HashSet::new();
    let arr: Vec<serde_json::Value> =
        hols.iter().filter(|h| seen.insert(**h)).map(|h| serde_json::to_value(h).expect("date json")).collect();
    match v.get_mut("holidays") {
        Some(h) if h.is_array() && h.as_array().map(|a| a.len()) == Some(arr.len()) => *h = serde_json::Value::Array(arr),
        _ => return c,
    }
    serde_json::from_value(v).expect("calendar document")
}
fn read_cal(r: &mut Rd, doc: bool) -> Cal {
    let nm = r.next() as usize;
    let mask: Vec<u8> = r.take(nm).iter().map(|x| *x as u8).collect();
    let nh = r.next() as usize;
    let hols: Vec<chrono::NaiveDateTime> = r.take(nh).iter().map(|x| from_n(*x)).collect();
    let c = Cal::new(hols.clone(), mask);
    if doc {
        cal_from_doc(&hols, c)
    } else {
        c
    }
}
fn read_union(r: &mut Rd, doc: bool) -> UnionCal {
    let nc = r.next() as usize;
    let cals: Vec<Cal> = (0..nc).map(|_| read_cal(r, doc)).collect();
    let hs = r.next();
    let settle = if hs == 1 {
        let ns = r.next() as usize;
        Some((0..ns).map(|_| read_cal(r, doc)).collect())
    } else {
        None
    };
    UnionCal::new(cals, settle)
}
fn read_name(r: &mut Rd) -> String {
    let n = r.next() as usize;
    r.take(n).iter().map(|c| char::from_u32(*c as u32).unwrap()).collect()
}
/// Err(()) when the named calendar constructor returns an error
pub fn read_anycal(r: &mut Rd) -> Result<AnyCal, ()> {
    let kind = r.next();
    Ok(match kind {
        0 | 10 => AnyCal::C(read_cal(r, kind == 10)),
        3 | 13 => AnyCal::T(CalType::Cal(read_cal(r, kind == 13))),
        1 | 11 => AnyCal::U(read_union(r, kind == 11)),
        2 | 12 => AnyCal::T(CalType::UnionCal(read_union(r, kind == 12))),
        4 => AnyCal::N(NamedCal::try_new(&read_name(r)).map_err(|_| ())?),
        5 => AnyCal::T(CalType::NamedCal(NamedCal::try_new(&read_name(r)).map_err(|_| ())?)),
        // 14 / 15: the named calendar LOADED from a hand-written document carrying the caller's spelling of the name
        14 | 15 => {
            let name = read_name(r);
            let doc = format!("{{\"name\":{}}}", serde_json::to_string(&name).map_err(|_| ())?);
            let n = <NamedCal as rateslib::json::JSON>::from_json(&doc).map_err(|_| ())?;
            if kind == 14 {
                AnyCal::N(n)
            } else {
                AnyCal::T(CalType::NamedCal(n))
            }
        }
        _ => panic!("bad calendar kind"),
    })
}

fn modifier(m: i128) -> Modifier {
    match m {
        0 => Modifier::Act,
        1 => Modifier::F,
        2 => Modifier::ModF,
        3 => Modifier::P,
        _ => Modifier::ModP,
    }
}

/// one op on a calendar; outcome encoding 0 v / 1 / 2 where the function can fail
fn op1<C: DateRoll>(c: &C, op: i128, a: &[i128]) -> Ints {
    match op {
        0 => vec![c.is_bus_day(&from_n(a[0])) as i128],
        1 => vec![c.is_settlement(&from_n(a[0])) as i128],
        2 => vec![c.is_weekday(&from_n(a[0])) as i128],
        3 => vec![c.is_holiday(&from_n(a[0])) as i128],
        10 => guard(|| Ok(vec![to_n(&c.roll(&from_n(a[0]), &modifier(a[1]), a[2] != 0))])),
        11 => guard(|| match c.add_bus_days(&from_n(a[0]), a[1] as i8, a[2] != 0) {
            Ok(d) => Ok(vec![to_n(&d)]),
            Err(_) => Err(()),
        }),
        12 => guard(|| Ok(vec![to_n(&c.lag(&from_n(a[0]), a[1] as i8, a[2] != 0))])),
        13 => guard(|| Ok(vec![to_n(&c.add_days(&from_n(a[0]), a[1] as i8, &modifier(a[2]), a[3] != 0))])),
        14 => guard(|| {
            Ok(vec![to_n(&c.add_months(&from_n(a[0]), a[1] as i32, &modifier(a[2]), &rollday(a[3], a[4]), a[5] != 0))])
        }),
        15 => guard(|| match c.bus_date_range(&from_n(a[0]), &from_n(a[1])) {
            Ok(v) => Ok(v.iter().map(to_n).collect()),
            Err(_) => Err(()),
        }),
        // 41 / 42 / 43 = 11 / 12 / 13 from a datetime WITH a time of day: last argument = seconds after midnight; the answer
        // is the day number of the result, whose time of day must be the one supplied (else -7 and the raw seconds)
        // 44: the four predicates at the datetime a[0] + a[1] seconds
        44 => {
            let dt = from_n(a[0]) + chrono::TimeDelta::seconds(a[1] as i64);
            vec![c.is_bus_day(&dt) as i128, c.is_settlement(&dt) as i128, c.is_weekday(&dt) as i128, c.is_holiday(&dt) as i128]
        }
        // 40 = 10 (roll) from a datetime with a time of day
        40 | 41 | 42 | 43 => {
            let t = *a.last().expect("time of day");
            let dt = from_n(a[0]) + chrono::TimeDelta::seconds(t as i64);
            let back = move |d: &chrono::NaiveDateTime| -> Ints {
                let secs = d.and_utc().timestamp() as i128;
                if secs.rem_euclid(86400) == t {
                    vec![secs.div_euclid(86400)]
                } else {
                    vec![-7, secs]
                }
            };
            guard(|| match op {
                40 => Ok(back(&c.roll(&dt, &modifier(a[1]), a[2] != 0))),
                41 => match c.add_bus_days(&dt, a[1] as i8, a[2] != 0) {
                    Ok(d) => Ok(back(&d)),
                    Err(_) => Err(()),
                },
                42 => Ok(back(&c.lag(&dt, a[1] as i8, a[2] != 0))),
                _ => Ok(back(&c.add_days(&dt, a[1] as i8, &modifier(a[2]), a[3] != 0))),
            })
        }
        // ranges -> hash
        30 => {
            let mut out = vec![];
            for d in a[0]..a[0] + a[1] {
                let dt = from_n(d);
                out.push(c.is_bus_day(&dt) as i128);
                out.push(c.is_settlement(&dt) as i128);
            }
            vec![hash(&out)]
        }
        31 => {
            let mut out = vec![];
            for d in a[0]..a[0] + a[1] {
                for m in 0..5 {
                    for s in 0..2 {
                        out.extend(op1(c, 10, &[d, m, s]));
                    }
                }
            }
            vec![hash(&out)]
        }
        32 => {
            // add_bus_days, lag, add_days over the WHOLE i8 range from date a[0], modifier a[1]
            let mut out = vec![];
            for n in -128..128 {
                for s in 0..2 {
                    out.extend(op1(c, 11, &[a[0], n, s]));
                    out.extend(op1(c, 12, &[a[0], n, s]));
                    out.extend(op1(c, 13, &[a[0], n, a[1], s]));
                }
            }
            vec![hash(&out)]
        }
        _ => panic!("bad op"),
    }
}

fn with_cal(c: &AnyCal, op: i128, a: &[i128]) -> Ints {
    match c {
        AnyCal::C(x) => op1(x, op, a),
        AnyCal::U(x) => op1(x, op, a),
        AnyCal::N(x) => op1(x, op, a),
        AnyCal::T(x) => op1(x, op, a),
    }
}

fn eq_any(a: &AnyCal, b: &AnyCal) -> bool {
    use AnyCal::*;
    match (a, b) {
        (C(x), C(y)) => x == y,
        (C(x), U(y)) => x == y,
        (C(x), N(y)) => x == y,
        (U(x), C(y)) => x == y,
        (U(x), U(y)) => x == y,
        (U(x), N(y)) => x == y,
        (N(x), C(y)) => x == y,
        (N(x), U(y)) => x == y,
        (N(x), N(y)) => x == y,
        (T(x), T(y)) => x == y,
        _ => panic!("unsupported eq pairing"),
    }
}

pub fn run(_op: &str, a: &Ints) -> Ints {
    // the textual op is always "c"; everything is in the integer list
    let mut r = Rd::new(a);
    let c = match crate::catch(|| read_anycal(&mut r)) {
        Some(Ok(c)) => c,
        Some(Err(())) => return vec![1],
        None => return vec![2],
    };
    let op = r.next();
    if op == 20 {
        let c2 = match crate::catch(|| read_anycal(&mut r)) {
            Some(Ok(c)) => c,
            Some(Err(())) => return vec![1],
            None => return vec![2],
        };
        return guard(|| Ok(vec![eq_any(&c, &c2) as i128]));
    }
    if op == 21 {
        // construction only (named calendars): Ok
        return vec![0];
    }
    let args = r.rest();
    with_cal(&c, op, &args)
}
