//! Correspondence harness: runs the real rateslib functions on cases read from stdin
//! (one case per line: `<op> <int>*`) and prints one canonical line of integers per case.
//! Outcome-valued results are printed as `0 <payload>` (Ok), `1` (Err), `2` (Panic).
use std::io::{self, BufRead, Write};
use std::panic::{catch_unwind, AssertUnwindSafe};

mod cal;
mod curve;
mod dates;
mod dual;
mod fx;
mod json;
mod linalg;
mod named;
mod numenc;
mod spline;

pub type Ints = Vec<i128>;

pub fn guard<F: FnOnce() -> Result<Ints, ()>>(f: F) -> Ints {
    match catch_unwind(AssertUnwindSafe(f)) {
        Ok(Ok(mut v)) => {
            let mut out = vec![0];
            out.append(&mut v);
            out
        }
        Ok(Err(())) => vec![1],
        Err(_) => vec![2],
    }
}

/// polynomial hash of a sequence of integers (range cases print only this; the driver drills
/// down with single cases on a mismatch)
pub fn hash(v: &Ints) -> i128 {
    let p: i128 = 2305843009213693951; // 2^61 - 1
    let mut h: i128 = 7;
    for x in v {
        h = (h * 1000003 + x.rem_euclid(p)).rem_euclid(p);
    }
    h
}

pub fn catch<T, F: FnOnce() -> T>(f: F) -> Option<T> {
    catch_unwind(AssertUnwindSafe(f)).ok()
}

pub fn f2i(x: f64) -> i128 {
    x.to_bits() as i128
}
pub fn i2f(x: i128) -> f64 {
    f64::from_bits(x as u64)
}

/// the site and message of the last panic (recorded by the panic hook); reported for lines whose
/// operation is prefixed by `@`, as `... -7 <line> <n> <n bytes of file> <m> <m bytes of message>`
static LAST_PANIC: std::sync::Mutex<Option<(String, u32, String)>> = std::sync::Mutex::new(None);

fn main() {
    pyo3::prepare_freethreaded_python();
    std::panic::set_hook(Box::new(|info| {
        let (file, line) = info
            .location()
            .map(|l| (l.file().to_string(), l.line()))
            .unwrap_or((String::new(), 0));
        let msg = if let Some(s) = info.payload().downcast_ref::<&str>() {
            s.to_string()
        } else if let Some(s) = info.payload().downcast_ref::<String>() {
            s.clone()
        } else {
            String::new()
        };
        if let Ok(mut g) = LAST_PANIC.lock() {
            *g = Some((file, line, msg));
        }
    }));
    let args: Vec<String> = std::env::args().collect();
    let domain = args.get(1).map(|s| s.as_str()).unwrap_or("");
    let stdin = io::stdin();
    let stdout = io::stdout();
    let mut out = io::BufWriter::new(stdout.lock());
    for line in stdin.lock().lines() {
        let line = line.unwrap();
        let mut it = line.split_whitespace();
        let mut op = match it.next() {
            Some(o) => o.to_string(),
            None => continue,
        };
        let want_site = op.starts_with('@');
        if want_site {
            op = op[1..].to_string();
            if let Ok(mut g) = LAST_PANIC.lock() {
                *g = None;
            }
        }
        let a: Ints = it.map(|t| t.parse::<i128>().expect("int")).collect();
        let res: Ints = match catch_unwind(AssertUnwindSafe(|| match domain {
            "dates" => dates::run(&op, &a),
            "cal" => cal::run(&op, &a),
            "dual" => dual::run(&op, &a),
            "fx" => fx::run(&op, &a),
            "curve" => curve::run(&op, &a),
            "linalg" => linalg::run(&op, &a),
            "spline" => spline::run(&op, &a),
            "json" => json::run(&op, &a),
            "named" => named::run(&op, &a),
            _ => panic!("unknown domain"),
        })) {
            Ok(v) => v,
            Err(_) => vec![2],
        };
        let mut res = res;
        if want_site {
            if let Ok(g) = LAST_PANIC.lock() {
                if let Some((file, line, msg)) = g.as_ref() {
                    res.push(-7);
                    res.push(*line as i128);
                    res.push(file.len() as i128);
                    res.extend(file.bytes().map(|b| b as i128));
                    let m: Vec<u8> = msg.bytes().take(200).collect();
                    res.push(m.len() as i128);
                    res.extend(m.iter().map(|b| *b as i128));
                }
            }
        }
        let s: Vec<String> = res.iter().map(|x| x.to_string()).collect();
        writeln!(out, "{}", s.join(" ")).unwrap();
    }
}
