//! Domain `dual` (C01, C02, C03, C17, C18, C19): dual-number arithmetic on the real code.
//! Expression trees are encoded in prefix form (see coq/theories/Run/RunDual.v):
//!   0 name | 1 f | 2 a b (Add) | 3 a f (AddF) | 4 f a (FAdd) | 5 a b (Sub) | 6 a f | 7 f a
//!   | 8 a b (Mul) | 9 a f | 10 f a | 11 a b (Div) | 12 a f | 13 f a | 14 a (Neg owned) | 15 a (Neg ref)
//!   | 16 a p (Pow owned) | 17 a p (Pow ref) | 18 Exp | 19 Log | 20 Ncdf | 21 Nicdf | 22 Abs
use crate::cal::Rd;
use crate::numenc::*;
use crate::{f2i, guard, Ints};
use num_traits::{One, Pow, Signed, Zero};
use rateslib::dual::{
    set_order, set_order_clone, ADOrder, Dual, Dual2, Gradient1, Gradient2, MathFuncs, Number, Vars,
};
use std::collections::HashMap;

#[derive(Clone, Debug)]
pub enum E {
    Var(String),
    Cst(f64),
    Bin(u8, Box<E>, Box<E>),  // 0 add 1 sub 2 mul 3 div
    BinF(u8, Box<E>, f64),    // a op f
    FBin(u8, f64, Box<E>),    // f op a
    Neg(Box<E>),
    NegRef(Box<E>),
    Pow(Box<E>, f64),
    PowRef(Box<E>, f64),
    Exp(Box<E>),
    Log(Box<E>),
    Ncdf(Box<E>),
    Nicdf(Box<E>),
    Abs(Box<E>),
}

pub fn read_expr(r: &mut Rd) -> E {
    let t = r.next();
    match t {
        0 => E::Var(read_name(r)),
        1 => E::Cst(read_f(r)),
        2 | 5 | 8 | 11 => {
            let a = read_expr(r);
            let b = read_expr(r);
            E::Bin(((t - 2) / 3) as u8, Box::new(a), Box::new(b))
        }
        3 | 6 | 9 | 12 => {
            let a = read_expr(r);
            let f = read_f(r);
            E::BinF(((t - 3) / 3) as u8, Box::new(a), f)
        }
        4 | 7 | 10 | 13 => {
            let f = read_f(r);
            let a = read_expr(r);
            E::FBin(((t - 4) / 3) as u8, f, Box::new(a))
        }
        14 => E::Neg(Box::new(read_expr(r))),
        15 => E::NegRef(Box::new(read_expr(r))),
        16 => {
            let a = read_expr(r);
            E::Pow(Box::new(a), read_f(r))
        }
        17 => {
            let a = read_expr(r);
            E::PowRef(Box::new(a), read_f(r))
        }
        18 => E::Exp(Box::new(read_expr(r))),
        19 => E::Log(Box::new(read_expr(r))),
        20 => E::Ncdf(Box::new(read_expr(r))),
        21 => E::Nicdf(Box::new(read_expr(r))),
        22 => E::Abs(Box::new(read_expr(r))),
        _ => panic!("bad expr tag"),
    }
}

pub fn eval_f(e: &E, env: &HashMap<String, f64>) -> f64 {
    match e {
        E::Var(v) => env[v],
        E::Cst(c) => *c,
        E::Bin(o, a, b) => {
            let (x, y) = (eval_f(a, env), eval_f(b, env));
            match o { 0 => x + y, 1 => x - y, 2 => x * y, _ => x / y }
        }
        E::BinF(o, a, f) => {
            let x = eval_f(a, env);
            match o { 0 => x + f, 1 => x - f, 2 => x * f, _ => x / f }
        }
        E::FBin(o, f, a) => {
            let x = eval_f(a, env);
            match o { 0 => f + x, 1 => f - x, 2 => f * x, _ => f / x }
        }
        E::Neg(a) | E::NegRef(a) => -eval_f(a, env),
        E::Pow(a, p) | E::PowRef(a, p) => eval_f(a, env).powf(*p),
        E::Exp(a) => eval_f(a, env).exp(),
        E::Log(a) => eval_f(a, env).ln(),
        E::Ncdf(a) => MathFuncs::norm_cdf(&eval_f(a, env)),
        E::Nicdf(a) => MathFuncs::inv_norm_cdf(&eval_f(a, env)),
        E::Abs(a) => eval_f(a, env).abs(),
    }
}

/// the terms of a top-level chain of additions, left to right
fn flatten_add<'a>(e: &'a E, out: &mut Vec<&'a E>) {
    match e {
        E::Bin(0, a, b) => {
            flatten_add(a, out);
            flatten_add(b, out);
        }
        _ => out.push(e),
    }
}

macro_rules! eval_impl {
    ($name:ident, $inner:ident, $sumname:ident, $ty:ty) => {
        /// Every variable is ONE object, created once and used (cloned: the variable list is shared, as in user code
        /// `let x = Dual::new(..); &x * &x`) wherever the expression mentions it.
        pub fn $name(e: &E, env: &HashMap<String, f64>) -> $ty {
            let vars: HashMap<String, $ty> = env.iter().map(|(k, v)| (k.clone(), <$ty>::new(*v, vec![k.clone()]))).collect();
            $inner(e, &vars)
        }
        /// The same expression with its top-level chain of `+` evaluated through `impl Sum for $ty`:
        /// `[t1, t2, ..].into_iter().sum()` instead of `t1 + t2 + ..` (the iterator form of the operator).
        pub fn $sumname(e: &E, env: &HashMap<String, f64>) -> $ty {
            let vars: HashMap<String, $ty> = env.iter().map(|(k, v)| (k.clone(), <$ty>::new(*v, vec![k.clone()]))).collect();
            let mut terms: Vec<&E> = vec![];
            flatten_add(e, &mut terms);
            terms.into_iter().map(|t| $inner(t, &vars)).sum()
        }
        fn $inner(e: &E, env: &HashMap<String, $ty>) -> $ty {
            let $name = $inner;
            match e {
                E::Var(v) => env[v].clone(),
                E::Cst(c) => <$ty>::new(*c, vec![]),
                E::Bin(o, a, b) => {
                    let (x, y) = ($name(a, env), $name(b, env));
                    match o { 0 => &x + &y, 1 => &x - &y, 2 => &x * &y, _ => &x / &y }
                }
                E::BinF(o, a, f) => {
                    let x = $name(a, env);
                    match o { 0 => &x + f, 1 => &x - f, 2 => &x * f, _ => &x / f }
                }
                E::FBin(o, f, a) => {
                    let x = $name(a, env);
                    match o { 0 => f + &x, 1 => f - &x, 2 => f * &x, _ => f / &x }
                }
                E::Neg(a) => -$name(a, env),
                E::NegRef(a) => -&$name(a, env),
                E::Pow(a, p) => $name(a, env).pow(*p),
                E::PowRef(a, p) => (&$name(a, env)).pow(*p),
                E::Exp(a) => $name(a, env).exp(),
                E::Log(a) => $name(a, env).log(),
                E::Ncdf(a) => $name(a, env).norm_cdf(),
                E::Nicdf(a) => $name(a, env).inv_norm_cdf(),
                E::Abs(a) => $name(a, env).abs(),
            }
        }
    };
}
eval_impl!(eval_d1, eval_d1_in, eval_d1_sum, Dual);
eval_impl!(eval_d2, eval_d2_in, eval_d2_sum, Dual2);

fn read_env(r: &mut Rd) -> (Vec<String>, HashMap<String, f64>) {
    let n = r.next() as usize;
    let mut names = vec![];
    let mut env = HashMap::new();
    for _ in 0..n {
        let nm = read_name(r);
        let v = read_f(r);
        names.push(nm.clone());
        env.insert(nm, v);
    }
    (names, env)
}

/// a second operand that shares (p = 1) or does not share (p = 0) the Arc of `a` when the
/// variable lists are equal; when they differ sharing is impossible and p is ignored
fn share1(a: &Dual, b: Dual, p: i128) -> Dual {
    if p == 1 && a.vars().len() == b.vars().len() && a.vars().iter().zip(b.vars().iter()).all(|(x, y)| x == y) {
        Dual::clone_from(a, b.real(), b.dual().clone())
    } else {
        b
    }
}
fn share2(a: &Dual2, b: Dual2, p: i128) -> Dual2 {
    if p == 1 && a.vars().len() == b.vars().len() && a.vars().iter().zip(b.vars().iter()).all(|(x, y)| x == y) {
        Dual2::clone_from(a, b.real(), b.dual().clone(), b.dual2().clone())
    } else {
        b
    }
}

fn adorder(o: i128) -> ADOrder {
    match o { 0 => ADOrder::Zero, 1 => ADOrder::One, _ => ADOrder::Two }
}
fn ob(b: bool) -> Ints { vec![b as i128] }

pub fn run(_op: &str, a: &Ints) -> Ints {
    let mut r = Rd::new(a);
    let op = r.next();
    match op {
        // ---- C01: expression on Dual: plain value, result, gradient1 over the env names (31: top-level sum through impl Sum)
        1 | 31 => guard(|| {
            let (names, env) = read_env(&mut r);
            let e = read_expr(&mut r);
            let mut out = vec![f2i(eval_f(&e, &env))];
            let d = if op == 31 { eval_d1_sum(&e, &env) } else { eval_d1(&e, &env) };
            write_dual(&d, &mut out);
            let g = d.gradient1(names.clone());
            out.push(g.len() as i128);
            out.extend(g.iter().map(|x| f2i(*x)));
            Ok(out)
        }),
        // ---- C02: expression on Dual2: plain value, result, gradient1, gradient2, Dual::from
        2 | 32 => guard(|| {
            let (names, env) = read_env(&mut r);
            let e = read_expr(&mut r);
            let mut out = vec![f2i(eval_f(&e, &env))];
            let d = if op == 32 { eval_d2_sum(&e, &env) } else { eval_d2(&e, &env) };
            write_dual2(&d, &mut out);
            let g = d.gradient1(names.clone());
            out.push(g.len() as i128);
            out.extend(g.iter().map(|x| f2i(*x)));
            let h = d.gradient2(names.clone());
            out.push(h.shape()[0] as i128);
            out.push(h.shape()[1] as i128);
            out.extend(h.iter().map(|x| f2i(*x)));
            write_dual(&Dual::from(&d), &mut out);
            write_dual(&Dual::from(d.clone()), &mut out);
            Ok(out)
        }),
        // ---- C03/C19: binary operator on two Dual / Dual2: kind opcode p a b
        //      opcode 0 add 1 sub 2 mul 3 div 4 rem 5 == 6 < 7 <= 8 > 9 >= 10 abs_sub
        3 => guard(|| {
            let kind = r.next();
            let oc = r.next();
            let p = r.next();
            let mut out = vec![];
            if kind == 1 {
                let x = read_dual(&mut r);
                let y = share1(&x, read_dual(&mut r), p);
                match oc {
                    0 => write_dual(&(&x + &y), &mut out),
                    1 => write_dual(&(&x - &y), &mut out),
                    2 => write_dual(&(&x * &y), &mut out),
                    3 => write_dual(&(&x / &y), &mut out),
                    4 => write_dual(&(&x % &y), &mut out),
                    5 => out = ob(x == y),
                    6 => out = ob(x < y),
                    7 => out = ob(x <= y),
                    8 => out = ob(x > y),
                    10 => write_dual(&x.abs_sub(&y), &mut out),
                    _ => out = ob(x >= y),
                }
            } else {
                let x = read_dual2(&mut r);
                let y = share2(&x, read_dual2(&mut r), p);
                match oc {
                    0 => write_dual2(&(&x + &y), &mut out),
                    1 => write_dual2(&(&x - &y), &mut out),
                    2 => write_dual2(&(&x * &y), &mut out),
                    3 => write_dual2(&(&x / &y), &mut out),
                    4 => write_dual2(&(&x % &y), &mut out),
                    5 => out = ob(x == y),
                    6 => out = ob(x < y),
                    7 => out = ob(x <= y),
                    8 => out = ob(x > y),
                    10 => write_dual2(&x.abs_sub(&y), &mut out),
                    _ => out = ob(x >= y),
                }
            }
            Ok(out)
        }),
        // ---- C19: dual (op) float and float (op) dual: kind opcode side(0 = d op f, 1 = f op d) d f
        4 => guard(|| {
            let kind = r.next();
            let oc = r.next();
            let side = r.next();
            let mut out = vec![];
            if kind == 1 {
                let x = read_dual(&mut r);
                let f = read_f(&mut r);
                match (oc, side) {
                    (0, 0) => write_dual(&(&x + f), &mut out),
                    (0, _) => write_dual(&(f + &x), &mut out),
                    (1, 0) => write_dual(&(&x - f), &mut out),
                    (1, _) => write_dual(&(f - &x), &mut out),
                    (2, 0) => write_dual(&(&x * f), &mut out),
                    (2, _) => write_dual(&(f * &x), &mut out),
                    (3, 0) => write_dual(&(&x / f), &mut out),
                    (3, _) => write_dual(&(f / &x), &mut out),
                    (4, 0) => write_dual(&(&x % f), &mut out),
                    (4, _) => write_dual(&(f % &x), &mut out),
                    (5, 0) => out = ob(x == f),
                    (5, _) => out = ob(f == x),
                    (6, 0) => out = ob(x < f),
                    (6, _) => out = ob(f < x),
                    (7, 0) => out = ob(x <= f),
                    (7, _) => out = ob(f <= x),
                    (8, 0) => out = ob(x > f),
                    (8, _) => out = ob(f > x),
                    (_, 0) => out = ob(x >= f),
                    (_, _) => out = ob(f >= x),
                }
            } else {
                let x = read_dual2(&mut r);
                let f = read_f(&mut r);
                match (oc, side) {
                    (0, 0) => write_dual2(&(&x + f), &mut out),
                    (0, _) => write_dual2(&(f + &x), &mut out),
                    (1, 0) => write_dual2(&(&x - f), &mut out),
                    (1, _) => write_dual2(&(f - &x), &mut out),
                    (2, 0) => write_dual2(&(&x * f), &mut out),
                    (2, _) => write_dual2(&(f * &x), &mut out),
                    (3, 0) => write_dual2(&(&x / f), &mut out),
                    (3, _) => write_dual2(&(f / &x), &mut out),
                    (4, 0) => write_dual2(&(&x % f), &mut out),
                    (4, _) => write_dual2(&(f % &x), &mut out),
                    (5, 0) => out = ob(x == f),
                    (5, _) => out = ob(f == x),
                    (6, 0) => out = ob(x < f),
                    (6, _) => out = ob(f < x),
                    (7, 0) => out = ob(x <= f),
                    (7, _) => out = ob(f <= x),
                    (8, 0) => out = ob(x > f),
                    (8, _) => out = ob(f > x),
                    (_, 0) => out = ob(x >= f),
                    (_, _) => out = ob(f >= x),
                }
            }
            Ok(out)
        }),
        // ---- C19: unary: kind opcode d   (0 abs 1 signum 2 is_zero 3 neg owned 4 neg ref 5 zero 6 one
        //      7 is_positive 8 is_negative)
        5 => guard(|| {
            let kind = r.next();
            let oc = r.next();
            let mut out = vec![];
            if kind == 1 {
                let x = read_dual(&mut r);
                match oc {
                    0 => write_dual(&x.abs(), &mut out),
                    1 => write_dual(&x.signum(), &mut out),
                    2 => out = ob(x.is_zero()),
                    3 => write_dual(&(-x.clone()), &mut out),
                    4 => write_dual(&(-&x), &mut out),
                    5 => write_dual(&Dual::zero(), &mut out),
                    6 => write_dual(&Dual::one(), &mut out),
                    7 => out = ob(x.is_positive()),
                    _ => out = ob(x.is_negative()),
                }
            } else {
                let x = read_dual2(&mut r);
                match oc {
                    0 => write_dual2(&x.abs(), &mut out),
                    1 => write_dual2(&x.signum(), &mut out),
                    2 => out = ob(x.is_zero()),
                    3 => write_dual2(&(-x.clone()), &mut out),
                    4 => write_dual2(&(-&x), &mut out),
                    5 => write_dual2(&Dual2::zero(), &mut out),
                    6 => write_dual2(&Dual2::one(), &mut out),
                    7 => out = ob(x.is_positive()),
                    _ => out = ob(x.is_negative()),
                }
            }
            Ok(out)
        }),
        // ---- C19: sum of a list: kind n d*
        6 => guard(|| {
            let kind = r.next();
            let n = r.next() as usize;
            let mut out = vec![];
            if kind == 1 {
                let v: Vec<Dual> = (0..n).map(|_| read_dual(&mut r)).collect();
                write_dual(&v.into_iter().sum::<Dual>(), &mut out);
            } else {
                let v: Vec<Dual2> = (0..n).map(|_| read_dual2(&mut r)).collect();
                write_dual2(&v.into_iter().sum::<Dual2>(), &mut out);
            }
            Ok(out)
        }),
        // ---- C17: gradients by name: kind(1|2) which(1 gradient1 | 2 gradient2 | 3 manifold) d names
        7 => guard(|| {
            let kind = r.next();
            let which = r.next();
            let mut out = vec![];
            if kind == 1 {
                let x = read_dual(&mut r);
                let ws = read_names(&mut r);
                let g = x.gradient1(ws);
                out.push(g.len() as i128);
                out.extend(g.iter().map(|x| f2i(*x)));
            } else {
                let x = read_dual2(&mut r);
                let ws = read_names(&mut r);
                match which {
                    1 => {
                        let g = x.gradient1(ws);
                        out.push(g.len() as i128);
                        out.extend(g.iter().map(|x| f2i(*x)));
                    }
                    2 => {
                        let h = x.gradient2(ws);
                        out.push(h.shape()[0] as i128);
                        out.push(h.shape()[1] as i128);
                        out.extend(h.iter().map(|x| f2i(*x)));
                    }
                    _ => {
                        let m = x.gradient1_manifold(ws);
                        out.push(m.len() as i128);
                        for d in m.iter() {
                            write_dual2(d, &mut out);
                        }
                    }
                }
            }
            Ok(out)
        }),
        // ---- C18: Number: 10 set_order(n, order, names) | 11 set_order_clone | 12 binary (opcode p a b)
        //      13 number (op) f64 / f64 (op) number | 14 unary | 15 From conversions | 16 sum
        10 | 11 => guard(|| {
            let n = read_number(&mut r);
            let o = adorder(r.next());
            let ws = read_names(&mut r);
            let mut out = vec![];
            let res = if op == 10 { set_order(n, o, ws) } else { set_order_clone(&n, o, ws) };
            write_number(&res, &mut out);
            Ok(out)
        }),
        12 => guard(|| {
            let oc = r.next();
            let x = read_number(&mut r);
            let y = read_number(&mut r);
            // RL_PRESENT=2: when both operands are of one kind and list the same names in the same order, the second one
            // SHARES the variable list of the first (as two numbers derived from the same variables do)
            let y = if crate::numenc::present() == 2 {
                match (&x, y) {
                    (Number::Dual(a), Number::Dual(b)) => Number::Dual(share1(a, b, 1)),
                    (Number::Dual2(a), Number::Dual2(b)) => Number::Dual2(share2(a, b, 1)),
                    (_, y) => y,
                }
            } else {
                y
            };
            let mut out = vec![];
            match oc {
                0 => write_number(&(&x + &y), &mut out),
                1 => write_number(&(&x - &y), &mut out),
                2 => write_number(&(&x * &y), &mut out),
                3 => write_number(&(&x / &y), &mut out),
                4 => write_number(&(&x % &y), &mut out),
                5 => out = ob(x == y),
                6 => out = ob(x < y),
                7 => out = ob(x <= y),
                8 => out = ob(x > y),
                10 => write_number(&x.abs_sub(&y), &mut out),
                _ => out = ob(x >= y),
            }
            Ok(out)
        }),
        13 => guard(|| {
            let oc = r.next();
            let side = r.next();
            let x = read_number(&mut r);
            let f = read_f(&mut r);
            let mut out = vec![];
            match (oc, side) {
                (0, 0) => write_number(&(&x + f), &mut out),
                (0, _) => write_number(&(f + &x), &mut out),
                (1, 0) => write_number(&(&x - f), &mut out),
                (1, _) => write_number(&(f - &x), &mut out),
                (2, 0) => write_number(&(&x * f), &mut out),
                (2, _) => write_number(&(f * &x), &mut out),
                (3, 0) => write_number(&(&x / f), &mut out),
                (3, _) => write_number(&(f / &x), &mut out),
                (4, 0) => write_number(&(&x % f), &mut out),
                (4, _) => write_number(&(f % &x), &mut out),
                (5, 0) => out = ob(x == f),
                (5, _) => out = ob(f == x),
                (6, 0) => out = ob(x < f),
                (6, _) => out = ob(f < x),
                (7, 0) => out = ob(x <= f),
                (7, _) => out = ob(f <= x),
                (8, 0) => out = ob(x > f),
                (8, _) => out = ob(f > x),
                (_, 0) => out = ob(x >= f),
                (_, _) => out = ob(f >= x),
            }
            Ok(out)
        }),
        // unary on Number: 0 neg(owned) 1 neg(ref) 2 pow(p) 3 exp 4 log 5 ncdf 6 nicdf 7 abs 8 signum
        //                  9 is_zero 10 zero 11 one 12 pow ref 13 is_positive 14 is_negative
        14 => guard(|| {
            let oc = r.next();
            let x = read_number(&mut r);
            let p = read_f(&mut r);
            let mut out = vec![];
            match oc {
                0 => write_number(&(-x.clone()), &mut out),
                1 => write_number(&(-&x), &mut out),
                2 => write_number(&x.clone().pow(p), &mut out),
                3 => write_number(&x.exp(), &mut out),
                4 => write_number(&x.log(), &mut out),
                5 => write_number(&x.norm_cdf(), &mut out),
                6 => write_number(&x.inv_norm_cdf(), &mut out),
                7 => write_number(&x.abs(), &mut out),
                8 => write_number(&x.signum(), &mut out),
                9 => out = ob(x.is_zero()),
                10 => write_number(&Number::zero(), &mut out),
                11 => write_number(&Number::one(), &mut out),
                13 => out = ob(x.is_positive()),
                14 => out = ob(x.is_negative()),
                _ => write_number(&(&x).pow(p), &mut out),
            }
            Ok(out)
        }),
        // From conversions: Number -> f64, Dual, Dual2 (owned and by reference)
        15 => guard(|| {
            let x = read_number(&mut r);
            let mut out = vec![];
            out.push(f2i(f64::from(&x)));
            out.push(f2i(f64::from(x.clone())));
            let skip1 = matches!(x, Number::Dual2(_)) && false;
            let _ = skip1;
            write_dual(&Dual::from(&x), &mut out);
            write_dual(&Dual::from(x.clone()), &mut out);
            write_dual2(&Dual2::from(&x), &mut out);
            write_dual2(&Dual2::from(x.clone()), &mut out);
            Ok(out)
        }),
        16 => guard(|| {
            let n = r.next() as usize;
            let v: Vec<Number> = (0..n).map(|_| read_number(&mut r)).collect();
            let mut out = vec![];
            write_number(&v.into_iter().sum::<Number>(), &mut out);
            Ok(out)
        }),
        // From conversions out of / into the plain kinds (C18): 17 0 f | 17 1 dual | 17 2 dual2
        17 => guard(|| {
            let kind = r.next();
            let mut out = vec![];
            match kind {
                0 => {
                    let f = read_f(&mut r);
                    write_dual(&Dual::from(f), &mut out);
                    write_dual2(&Dual2::from(f), &mut out);
                    write_number(&Number::from(f), &mut out);
                    write_number(&Number::from(&f), &mut out);
                }
                1 => {
                    let x = read_dual(&mut r);
                    out.push(f2i(f64::from(x.clone())));
                    out.push(f2i(f64::from(&x)));
                    write_number(&Number::from(&x), &mut out);
                    write_number(&Number::from(x), &mut out);
                }
                _ => {
                    let x = read_dual2(&mut r);
                    out.push(f2i(f64::from(x.clone())));
                    out.push(f2i(f64::from(&x)));
                    write_number(&Number::from(&x), &mut out);
                    write_number(&Number::from(x), &mut out);
                }
            }
            Ok(out)
        }),
        // constructors on another number's variables (C03 / C20):
        //   22 try_new_from: kind okind other-names re names nd du* [ndd dd*]
        //   23 new_from:     kind okind other-names re names
        //   (other = a number of kind okind built on other-names; only its vars() are used)
        22 | 23 => guard(|| {
            let kind = r.next();
            let okind = r.next();
            let os = read_names(&mut r);
            let o1 = Dual::new(0.5, os.clone());
            let o2 = Dual2::new(0.5, os);
            let re = read_f(&mut r);
            let ws = read_names(&mut r);
            let mut out = vec![];
            if op == 23 {
                if kind == 1 {
                    let d = if okind == 1 { Dual::new_from(&o1, re, ws) } else { Dual::new_from(&o2, re, ws) };
                    write_dual(&d, &mut out);
                } else {
                    let d = if okind == 1 { Dual2::new_from(&o1, re, ws) } else { Dual2::new_from(&o2, re, ws) };
                    write_dual2(&d, &mut out);
                }
                return Ok(out);
            }
            let nd = r.next() as usize;
            let du = read_fs(&mut r, nd);
            if kind == 1 {
                let res = if okind == 1 { Dual::try_new_from(&o1, re, ws, du) } else { Dual::try_new_from(&o2, re, ws, du) };
                match res {
                    Ok(d) => write_dual(&d, &mut out),
                    Err(_) => return Err(()),
                }
            } else {
                let ndd = r.next() as usize;
                let dd = read_fs(&mut r, ndd);
                let res = if okind == 1 {
                    Dual2::try_new_from(&o1, re, ws, du, dd)
                } else {
                    Dual2::try_new_from(&o2, re, ws, du, dd)
                };
                match res {
                    Ok(d) => write_dual2(&d, &mut out),
                    Err(_) => return Err(()),
                }
            }
            Ok(out)
        }),
        // 24 to_new_vars(target, None) called directly: kind mode x target-names
        //    mode 1 = the target is x's own Arc, mode 0 = a separately built list;
        //    then ptr_eq(result, holder of the target) and ptr_eq(x, holder of the target)
        24 => guard(|| {
            let kind = r.next();
            let mode = r.next();
            let mut out = vec![];
            if kind == 1 {
                let x = read_dual(&mut r);
                let ws = read_names(&mut r);
                let holder = if mode == 1 { x.clone() } else { Dual::new(0.0, ws) };
                let y = x.to_new_vars(holder.vars(), None);
                write_dual(&y, &mut out);
                out.push(y.ptr_eq(&holder) as i128);
                out.push(x.ptr_eq(&holder) as i128);
            } else {
                let x = read_dual2(&mut r);
                let ws = read_names(&mut r);
                let holder = if mode == 1 { x.clone() } else { Dual2::new(0.0, ws) };
                let y = x.to_new_vars(holder.vars(), None);
                write_dual2(&y, &mut out);
                out.push(y.ptr_eq(&holder) as i128);
                out.push(x.ptr_eq(&holder) as i128);
            }
            Ok(out)
        }),
        // 25 to_union_vars(&y, None) called directly: kind p x y -> both results, then ptr_eq of the two results
        25 => guard(|| {
            let kind = r.next();
            let p = r.next();
            let mut out = vec![];
            if kind == 1 {
                let x = read_dual(&mut r);
                let y = share1(&x, read_dual(&mut r), p);
                let (a, b) = x.to_union_vars(&y, None);
                write_dual(&a, &mut out);
                write_dual(&b, &mut out);
                out.push(a.ptr_eq(&b) as i128);
            } else {
                let x = read_dual2(&mut r);
                let y = share2(&x, read_dual2(&mut r), p);
                let (a, b) = x.to_union_vars(&y, None);
                write_dual2(&a, &mut out);
                write_dual2(&b, &mut out);
                out.push(a.ptr_eq(&b) as i128);
            }
            Ok(out)
        }),
        // ---- C17: the product rule on manifolds, on the real code only: 26 a b names ->
        //      n then n*n entries of  gradient1( M(a)_i * b + a * M(b)_i , names )   (row i),
        //      n n then n*n entries of gradient2( a * b , names )
        26 => guard(|| {
            let a = read_dual2(&mut r);
            let b = read_dual2(&mut r);
            let ws = read_names(&mut r);
            let ma = a.gradient1_manifold(ws.clone());
            let mb = b.gradient1_manifold(ws.clone());
            let mut out = vec![ws.len() as i128];
            for i in 0..ws.len() {
                let t = &(&ma[i] * &b) + &(&a * &mb[i]);
                let g = t.gradient1(ws.clone());
                out.extend(g.iter().map(|x| f2i(*x)));
            }
            let h = (&a * &b).gradient2(ws);
            out.push(h.shape()[0] as i128);
            out.push(h.shape()[1] as i128);
            out.extend(h.iter().map(|x| f2i(*x)));
            Ok(out)
        }),
        // constructors (C20 reuse): 20 Dual::try_new(re, names, du) | 21 Dual2::try_new(re, names, du, dd)
        20 => guard(|| {
            let re = read_f(&mut r);
            let ws = read_names(&mut r);
            let nd = r.next() as usize;
            let du = read_fs(&mut r, nd);
            match Dual::try_new(re, ws, du) {
                Ok(d) => { let mut out = vec![]; write_dual(&d, &mut out); Ok(out) }
                Err(_) => Err(()),
            }
        }),
        21 => guard(|| {
            let re = read_f(&mut r);
            let ws = read_names(&mut r);
            let nd = r.next() as usize;
            let du = read_fs(&mut r, nd);
            let ndd = r.next() as usize;
            let dd = read_fs(&mut r, ndd);
            match Dual2::try_new(re, ws, du, dd) {
                Ok(d) => { let mut out = vec![]; write_dual2(&d, &mut out); Ok(out) }
                Err(_) => Err(()),
            }
        }),
        _ => vec![-1],
    }
}
